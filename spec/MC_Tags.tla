--------------------------------- MODULE MC_Tags ---------------------------------
(***************************************************************************)
(* C04 / C03: every tag line over {'@', blank, '#', other, ...} (Alpha) up *)
(* to MaxLen characters after an '@': the items, their columns, and the    *)
(* column of the whitespace fault, with the read-back property that the    *)
(* source at an item's column starts with '@' and, trimmed, the item text. *)
(* Printed for replay through GherkinLine.tags and the full parser.        *)
(***************************************************************************)
EXTENDS Lexer, Json
CONSTANTS MaxLen, Alpha, IndentCps
VARIABLES vTail, vSeen
Init == vTail \in UNION { [1..m -> Alpha] : m \in 0..MaxLen } /\ vSeen = FALSE
Next == ~vSeen /\ vSeen' = TRUE /\ UNCHANGED vTail
Spec == Init /\ [][Next]_<<vTail, vSeen>>
LineOfTags == IndentCps \o <<AT>> \o vTail
Res == TagLine(LineOfTags)
Inv_ReadBack == (vSeen /\ Res.ok) => \A j \in 1..Len(Res.items) :
   LET it == Res.items[j] IN /\ LineOfTags[it.col] = AT
                              /\ StartsWith(From(LineOfTags, it.col), it.text)
                              /\ ~HasWs(it.text)
                              /\ (j < Len(Res.items) => it.col < Res.items[j + 1].col)
\* a line is refused exactly when some tag (text between two '@', before a blank-then-'#' comment) contains a blank
Inv_FaultColumn == (vSeen /\ ~Res.ok) => /\ "exc" \in DOMAIN Res
                                         /\ LineOfTags[Res.col] = AT
Impl == TagLineAsImplemented(LineOfTags)
Emit == vSeen => PrintT(<<"TAGS", ToJson([line |-> LineOfTags, ok |-> Res.ok, items |-> IF Res.ok THEN Res.items ELSE <<>>, col |-> IF Res.ok THEN 0 ELSE Res.col,
                                          iok |-> Impl.ok, iitems |-> IF Impl.ok THEN Impl.items ELSE <<>>, icol |-> IF Impl.ok THEN 0 ELSE Impl.col])>>)
=============================================================================
