-------------------------------- MODULE MC_Grow --------------------------------
(***************************************************************************)
(* spec -> code for DEEP documents: the document grows one menu line at a  *)
(* time (environment action Extend), but only while it can still become an *)
(* accepted document, so that TLC enumerates every ACCEPTED document over  *)
(* the menu up to MaxLines lines instead of every sequence.                *)
(*                                                                         *)
(* "Can still be accepted" is decided by the specification itself: the     *)
(* document minus its trailing run of tag/comment/blank lines (the only    *)
(* lines whose reading depends on what follows: look-ahead) must parse     *)
(* without error when no end of file is presented.                         *)
(*                                                                         *)
(* Every accepted document is printed with the complete prediction for     *)
(* replay, and the property predicates are checked on the specification's  *)
(* result.                                                                 *)
(***************************************************************************)
EXTENDS Props
CONSTANTS Starts,        \* set of [p : prefix as menu indices, n : how many more lines may be added]
          NoFreeText     \* TRUE: prune documents in which a menu line is read as free text (description / doc string content)
Menu == JsonDeserialize("menu.json")
VARIABLES vDoc,           \* Seq of menu indices
          vLeft           \* lines that may still be added
LinesOfDoc(d) == [j \in 1..Len(d) |-> Menu[d[j]]]

IsSkipLine(l) == Empty(l).ok \/ Comment(l).ok \/ (LTrim(l) # <<>> /\ LTrim(l)[1] = AT)
RECURSIVE StableLen(_, _)
StableLen(lines, k) == IF k >= 1 /\ IsSkipLine(lines[k]) THEN StableLen(lines, k - 1) ELSE k
\* parse lines 1..n of `lines` without presenting the end of file
RECURSIVE ParseUpTo(_, _, _, _)
ParseUpTo(ps, lines, j, n) == IF j > n \/ ps.done THEN ps ELSE ParseUpTo(ParseLine(ps, lines, j), lines, j + 1, n)
\* does any of the lines 1..n read as free text?  (position-dependent: decided by running the specification)
RECURSIVE FreeTextUpTo(_, _, _, _)
FreeTextUpTo(ps, lines, j, n) == IF j > n \/ ps.done THEN FALSE
                                 ELSE LET r == FiredAt(ps, lines, j) IN
                                      IF r.hit # 0 /\ r.tok.type = "Other" THEN TRUE ELSE FreeTextUpTo(ParseLine(ps, lines, j), lines, j + 1, n)
Viable(lines) == LET n == StableLen(lines, Len(lines)) IN
                 /\ ~Rejected(ParseUpTo(InitParse("en", 0, CollectCap), lines, 1, n))
                 /\ (NoFreeText => ~FreeTextUpTo(InitParse("en", 0, CollectCap), lines, 1, n))

\* the specification's result for a document, computed ONCE per state and kept in vRes (TLC re-evaluates a definition at
\* every reference; the invariants below would otherwise each re-run the whole parse)
ResultFor(d) == LET run == RunAll(LinesOfDoc(d), "en", 0, CollectCap)  acc == ~Rejected(run.ps) IN
   IF ~acc THEN [acc |-> FALSE]
   ELSE LET doc == DocumentOf(run.ps)  c == CompileFrom(doc, <<117>>, NidAfter(run.ps)) IN
        [acc |-> TRUE, toks |-> run.toks, events |-> run.events, count |-> run.ps.count, doc |-> doc, pk |-> c.pickles, nid |-> c.nid,
         ix |-> Index(doc), eps |-> EPs(doc, <<117>>)]
VARIABLE vRes
\* (the single-source machine variables of Gherkin.tla are not used here)
Init == /\ \E s \in Starts : vDoc = s.p /\ vLeft = s.n /\ vRes = ResultFor(s.p)
        /\ vLines = <<>> /\ vLine = 0 /\ vPs = 0
Extend == /\ vLeft > 0 /\ vLeft' = vLeft - 1
          /\ \E k \in 1..Len(Menu) : LET nd == Append(vDoc, k) IN Viable(LinesOfDoc(nd)) /\ vDoc' = nd /\ vRes' = ResultFor(nd)
          /\ UNCHANGED gvars
Spec == Init /\ [][Extend]_<<vDoc, vLeft, vRes, gvars>>

Acc == vRes.acc
SDoc == vRes.doc
SPk == vRes.pk
Emit == Acc => PrintT(<<"BEH", ToJson([ input |-> vDoc, errs |-> <<>>, ndeliv |-> vRes.count, nid |-> vRes.nid, ast |-> <<SDoc>>, pickles |-> SPk ])>>)
Inv_C02 == Acc => P_C02_Derivation(vRes.toks, vRes.events) /\ P_C02_TagOwner(SDoc, vRes.ix)
Inv_C03 == Acc => LET ix == vRes.ix  ls == LinesOfDoc(vDoc) IN P_C03_Once(vRes.toks, SDoc, ix) /\ P_C03_Order(SDoc, ix) /\ P_C03_Text(ls, SDoc, ix)
                                           /\ P_C03_Desc(ls, vRes.toks, SDoc, ix) /\ P_C03_Within(ls, SDoc, ix)
Inv_C04 == Acc => P_C04_ReadBack(LinesOfDoc(vDoc), SDoc, vRes.ix)
Inv_C06 == Acc => P_C06(SPk, vRes.eps)
Inv_C07 == Acc => P_C07(SPk, vRes.eps)
Inv_C08 == Acc => P_C08(SPk, vRes.eps)
Inv_C09 == Acc => P_C09(SPk, vRes.eps)
Inv_C10 == Acc => P_C10(SPk, vRes.eps)
Inv_C11 == Acc => P_C11_Canonical(SDoc, SPk, 0) /\ P_C11_Refs(SDoc, SPk, vRes.ix)
Inv_C12 == Acc => P_C12_Cells(LinesOfDoc(vDoc), SDoc, vRes.ix) /\ P_C12_Rect(SDoc, vRes.ix)
Inv_C13 == Acc => P_C13_DocStrings(LinesOfDoc(vDoc), vRes.toks, SDoc, vRes.ix)
Inv_C18 == Acc => P_C18_Accepted(LinesOfDoc(vDoc), vRes.toks)
=============================================================================
