--------------------------------- MODULE MC_Cli ---------------------------------
(***************************************************************************)
(* Every command line of at most MaxArgs words over the three flags and a  *)
(* pool of files (accepted, with an outline, rejected, non-ASCII).         *)
(* Theorems: where the flags stand and how often is irrelevant; the files' *)
(* envelopes come in the order of the files; all ids of one run are        *)
(* pairwise distinct (one stream object, not one per file).  Each command  *)
(* line is printed with the predicted output for replay through the real   *)
(* script in a scratch directory holding exactly these files.              *)
(***************************************************************************)
EXTENDS Cli
CONSTANT MaxArgs
PoolFiles == JsonDeserialize("clipool.json")          \* sequence of [name : STRING, uri, data]
Fs == [n \in {PoolFiles[j].name : j \in 1..Len(PoolFiles)} |-> LET j == CHOOSE j \in 1..Len(PoolFiles) : PoolFiles[j].name = n IN [uri |-> PoolFiles[j].uri, data |-> PoolFiles[j].data]]
Words == Flags \cup DOMAIN Fs
VARIABLES vArgv, vOut, vSeen
cvars == <<vArgv, vOut, vSeen, vLines, vLine, vPs>>
Init == vArgv \in UNION { [1..m -> Words] : m \in 0..MaxArgs } /\ vOut = <<>> /\ vSeen = FALSE /\ vLines = <<>> /\ vLine = 0 /\ vPs = 0
\* the run: the whole command line is one step (the script has no state that outlives it)
Next == ~vSeen /\ vSeen' = TRUE /\ vOut' = Output(vArgv, Fs) /\ UNCHANGED <<vArgv, vLines, vLine, vPs>>
Spec == Init /\ [][Next]_cvars
Out == vOut
\* the same flags first, each once, then the files
Canonical(argv) == SelectSeq(<<"--no-source", "--no-ast", "--no-pickles">>, LAMBDA f : \E j \in 1..Len(argv) : argv[j] = f) \o FilesOf(argv)
Inv_FlagsAnywhere == vSeen => Out = Output(Canonical(vArgv), Fs)
Inv_FileOrder == vSeen => /\ Len(Out) = Len(FilesOf(vArgv))
                          /\ \A j \in 1..Len(Out) : P_C17_Uri(Out[j], Fs[FilesOf(vArgv)[j]]) /\ P_C17_Order(Out[j])
Inv_OneStream == vSeen => P_C11_StreamUnique(Out)
Emit == vSeen => PrintT(<<"CLI", ToJson([argv |-> vArgv, segs |-> Out])>>)
=============================================================================
