--------------------------------- MODULE MC_L0 ---------------------------------
(***************************************************************************)
(* All sequences of at most MaxLines line kinds (plus the end of file),    *)
(* optionally after a fixed prefix, through the small-step parser; every   *)
(* finished parse is printed (delivered / reported lines, final position,  *)
(* stack) for replay through the real Parser.parse with a kind-level stub  *)
(* matcher (harness/l0.py).                                                *)
(***************************************************************************)
EXTENDS ParserL0, Json
CONSTANTS MaxLines, Alphabet, Prefix, MaxErrs
VARIABLE vEvents     \* history: the builder calls of each delivered token
Init == vEvents = <<>> /\ \E s \in UNION { [1..n -> Alphabet] : n \in 0..MaxLines } : L0Init(Prefix \o s \o <<"#EOF">>)
Next == L0Next /\ vEvents' = IF Len(vDelivered') > Len(vDelivered) THEN Append(vEvents, Table[vSt][vTry].prods) ELSE vEvents
Spec == Init /\ [][Next]_<<lvars, vEvents>>
\* "nothing hangs": under weak fairness of the parser's own steps every parse ends (checked WITHOUT a state constraint, which could hide a
\* non-progress cycle; the instance is finite because the input is)
FairSpec == Spec /\ WF_<<lvars, vEvents>>(Next)
Termination == <>(vPc = "done")
Emit == vPc = "done" => PrintT(<<"L0", ToJson([input |-> vInput, delivered |-> vDelivered, reported |-> vReported, events |-> vEvents, nerr |-> vErrs])>>)
Bound == vErrs <= MaxErrs
Constraint == Emit /\ Bound
Quiet == Bound
View == L0View
NoPrefix == <<>>
ScenarioPrefix == <<"#FeatureLine", "#ScenarioLine", "#StepLine">>
LaAlphabet == {"#TagLine", "#Comment", "#Empty", "#ExamplesLine", "#ScenarioLine", "#RuleLine", "#StepLine", "#Other", "#Language"}
=============================================================================
