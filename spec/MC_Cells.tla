-------------------------------- MODULE MC_Cells --------------------------------
(***************************************************************************)
(* C12 / C04: every row over the character classes the splitter            *)
(* distinguishes (pipe, backslash, 'n', blank, other -- instantiated by    *)
(* the code points in Alpha) up to MaxLen characters.                      *)
(*                                                                         *)
(* The row splitter as a character-level MACHINE (registers of             *)
(* GherkinLine.split_table_cells: position, start column, cell so far,     *)
(* "before the first pipe", cells yielded), one action per branch of its   *)
(* loop.  When it halts its output must equal both the recursive           *)
(* operational definition (TableCells!SplitCells) and, after trimming and  *)
(* column arithmetic, the DECLARATIVE definition (texts between unescaped  *)
(* pipes, unescaped, blanks trimmed; column of first non-blank or closing  *)
(* pipe).  Round trip: a cell text without blank ends written with the     *)
(* three escapes reads back unchanged.                                     *)
(* Every row is printed with the declarative cells for replay through      *)
(* GherkinLine.table_cells and the full parser.                            *)
(***************************************************************************)
EXTENDS TableCells, Json
CONSTANTS MaxLen, Alpha, IndentCps
VARIABLES vRow, vI, vCol, vStartCol, vCell, vFirst, vCells, vHalt
cvars == <<vRow, vI, vCol, vStartCol, vCell, vFirst, vCells, vHalt>>
Init == /\ vRow \in UNION { [1..m -> Alpha] : m \in 0..MaxLen }
        /\ vI = 1 /\ vCol = 0 /\ vStartCol = 1 /\ vCell = <<>> /\ vFirst = TRUE /\ vCells = <<>> /\ vHalt = FALSE
\* the row as the splitter receives it: the line is  indent | row  and the splitter sees it trimmed
LineOfRow == IndentCps \o <<PIPE>> \o vRow
Row == Trim(LineOfRow)
Ch(k) == IF k <= Len(Row) THEN <<Row[k]>> ELSE <<>>
StepPipe == /\ ~vHalt /\ Ch(vI) = <<PIPE>>
            /\ vCells' = IF vFirst THEN vCells ELSE Append(vCells, [cell |-> vCell, col |-> vStartCol])
            /\ vFirst' = FALSE /\ vCell' = <<>> /\ vCol' = vCol + 1 /\ vStartCol' = vCol + 2 /\ vI' = vI + 1 /\ UNCHANGED <<vRow, vHalt>>
StepEscape == /\ ~vHalt /\ Ch(vI) = <<BSL>>
              /\ LET c == Ch(vI + 1) IN
                 vCell' = IF c = <<LOWN>> THEN Append(vCell, LF)
                          ELSE IF c = <<PIPE>> \/ c = <<BSL>> THEN vCell \o c
                          ELSE vCell \o <<BSL>> \o c
              /\ vCol' = vCol + 2 /\ vI' = vI + 2 /\ UNCHANGED <<vRow, vHalt, vFirst, vCells, vStartCol>>
StepChar == /\ ~vHalt /\ Ch(vI) # <<>> /\ Ch(vI) \notin {<<PIPE>>, <<BSL>>}
            /\ vCell' = vCell \o Ch(vI) /\ vCol' = vCol + 1 /\ vI' = vI + 1 /\ UNCHANGED <<vRow, vHalt, vFirst, vCells, vStartCol>>
StepEnd == /\ ~vHalt /\ Ch(vI) = <<>> /\ vHalt' = TRUE /\ UNCHANGED <<vRow, vI, vCol, vStartCol, vCell, vFirst, vCells>>
Next == StepPipe \/ StepEscape \/ StepChar \/ StepEnd
Spec == Init /\ [][Next]_cvars

Inv_MachineIsOperational == vHalt => vCells = SplitCells(Row)
Inv_OperationalIsDeclarative == vHalt => CellsOf(LineOfRow) = CellsDecl(LineOfRow)
\* C12 "any cell text without blanks at its ends, written with those three escapes, is read back unchanged" (every vRow doubles as a cell text)
Inv_RoundTrip == (vHalt /\ NoBlankEnds(vRow)) =>
   LET cs == CellsDecl(<<PIPE>> \o WriteCell(vRow) \o <<PIPE>>) IN Len(cs) = 1 /\ cs[1].text = vRow
\* C04: reading the line at a cell's column gives the cell back
Inv_ReadBack == vHalt => \A j \in 1..Len(CellsDecl(LineOfRow)) :
   LET c == CellsDecl(LineOfRow)[j]  l == RTrim(LineOfRow) IN
   /\ c.col <= Len(l)
   /\ (c.text = <<>> => l[c.col] = PIPE)
   /\ (c.text # <<>> => ~IsBlankNoLf(l[c.col]))
Emit == vHalt => PrintT(<<"ROW", ToJson([line |-> LineOfRow, cells |-> CellsDecl(LineOfRow)])>>)
=============================================================================
