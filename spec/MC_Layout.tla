-------------------------------- MODULE MC_Layout --------------------------------
(***************************************************************************)
(* C16 on the specification: for every document over a menu of lines (up   *)
(* to MaxLines) and EVERY admissible application of every layout           *)
(* transformation, the result of the transformed document equals the       *)
(* adjusted result of the original.  Each admissible pair is printed       *)
(* (transformed text + expected result) for replay through the real code.  *)
(***************************************************************************)
EXTENDS Layout
CONSTANTS MaxLines
Menu == JsonDeserialize("menu.json")
VARIABLES vDoc, vSeen
Init == /\ vDoc \in UNION { [1..m -> 1..Len(Menu)] : m \in 1..MaxLines } /\ vSeen = FALSE
        /\ vLines = <<>> /\ vLine = 0 /\ vPs = 0
Next == ~vSeen /\ vSeen' = TRUE /\ UNCHANGED <<vDoc, vLines, vLine, vPs>>
Spec == Init /\ [][Next]_<<vDoc, vSeen, vLines, vLine, vPs>>
LinesD == [j \in 1..Len(vDoc) |-> Menu[vDoc[j]]]
ResultOfLines(lines) == LET ps == ParseAll(lines, "en", 0, CollectCap) IN
   IF Rejected(ps) THEN [errs |-> ps.bs.errs, ast |-> <<>>, pickles |-> <<>>]
   ELSE [errs |-> <<>>, ast |-> <<DocumentOf(ps)>>, pickles |-> Compile(DocumentOf(ps), <<117>>, NidAfter(ps))]
Candidates(lines) ==
   {[t |-> "crlf", i |-> 0, n |-> 0, k |-> 0, c |-> 32], [t |-> "noeol", i |-> 0, n |-> 0, k |-> 0, c |-> 32]}
   \cup {[t |-> "trail", i |-> i, n |-> n, k |-> 0, c |-> c] : i \in 1..Len(lines), n \in {2}, c \in {32, 9}}
   \cup {[t |-> "indent", i |-> i, n |-> 3, k |-> k, c |-> 32] : i \in 1..Len(lines), k \in 0..(Len(lines) - 1)}
   \cup {[t |-> "blank", i |-> i, n |-> 0, k |-> 0, c |-> 32] : i \in 1..Len(lines)}
   \cup {[t |-> "comment", i |-> i, n |-> 0, k |-> 0, c |-> 32] : i \in 1..Len(lines)}
Holds(lines, run, res, tr) == Admissible(lines, run, tr) => Related(Adjust(res, tr), ResultOfLines(ApplyT(lines, tr)), tr)
Inv_Layout == vSeen => LET lines == LinesD  run == RunAll(lines, "en", 0, CollectCap)  res == ResultOfLines(lines) IN
                       \A tr \in Candidates(lines) : Holds(lines, run, res, tr)
Emit == vSeen => LET lines == LinesD  run == RunAll(lines, "en", 0, CollectCap)  res == ResultOfLines(lines)
                     adm == {tr \in Candidates(lines) : Admissible(lines, run, tr)} IN
                 PrintT(<<"LAYOUT", ToJson([input |-> vDoc, cases |-> SetToSeq({[tr |-> tr, lines |-> ApplyT(lines, tr), expect |-> Adjust(res, tr)] : tr \in adm})])>>)
=============================================================================
