-------------------------------- MODULE Sessions --------------------------------
(***************************************************************************)
(* C15: parser INSTANCES that are used again and at the same time.         *)
(*                                                                         *)
(* An instance owns a token matcher whose fields outlive a parse (dialect  *)
(* in force, open doc string delimiter, indentation to remove), a builder  *)
(* and, during a parse, a context.  Instances share only the (constant)    *)
(* dialect table -- and, in histories, one id generator.                   *)
(*                                                                         *)
(*   Begin(p, d)  Parser.parse entry: token_matcher.reset(), builder       *)
(*                reset, fresh context                                     *)
(*   Token(p)     one iteration of the parse loop (Gherkin!ParseLine)      *)
(*   End(p)       the parse returns or raises; the matcher keeps whatever  *)
(*                state the document left it in                            *)
(*                                                                         *)
(* TLC explores every history (sequence of documents from a pool through   *)
(* one instance) and every interleaving of the Token steps of concurrent   *)
(* instances.  Properties: a parse starts from the initial state whatever  *)
(* came before; every result equals the result of a fresh solo parse (with *)
(* the id offset of a shared generator).  Every finished run is printed    *)
(* (histories, schedule, predicted outcomes) for replay on real objects.   *)
(***************************************************************************)
EXTENDS Props
CONSTANTS NInst,        \* number of instances
          MaxDocs,      \* documents per instance
          SharedIds,    \* TRUE: all instances draw ids from one generator
          Default       \* the matchers' configured default dialect
Pool == JsonDeserialize("pool.json")      \* Seq(document as lines)
Inst == 1..NInst
VARIABLES vI,        \* instance |-> [ms, busy, doc, j, ps, hist, res, nid]
          vNid,      \* the shared id generator
          vSched     \* history: the order of the Token steps (for replay)
svars == <<vI, vNid, vSched, vLines, vLine, vPs>>
Idle == [ms |-> InitMatcher(Default), busy |-> FALSE, doc |-> 0, j |-> 0, ps |-> <<>>, hist |-> <<>>, res |-> <<>>, nid |-> 0]
Init == vI = [p \in Inst |-> Idle] /\ vNid = 0 /\ vSched = <<>> /\ vLines = <<>> /\ vLine = 0 /\ vPs = 0

\* TokenMatcher.reset(): back to the configured default dialect, no open doc string
ResetMatcher(ms) == [dia |-> Default, sep |-> <<>>, ind |-> 0]
Outcome(ps) == [ok |-> ~Rejected(ps), errs |-> ps.bs.errs, ast |-> IF Rejected(ps) THEN <<>> ELSE <<DocumentOf(ps)>>, nid |-> NidAfter(ps)]
Solo(d, nid0) == Outcome(ParseAll(Pool[d], Default, nid0, CollectCap))

Begin(p, d) ==
   /\ ~vI[p].busy /\ Len(vI[p].hist) < MaxDocs
   /\ LET nid0 == IF SharedIds THEN vNid ELSE vI[p].nid
          ms0 == ResetMatcher(vI[p].ms) IN
      vI' = [vI EXCEPT ![p] = [@ EXCEPT !.busy = TRUE, !.doc = d, !.j = 1, !.hist = Append(@, [d |-> d, nid0 |-> nid0]),
                                          !.ps = [InitParse(Default, nid0, CollectCap) EXCEPT !.ms = ms0]]]
   /\ UNCHANGED <<vSched, vNid, vLines, vLine, vPs>>
Token(p) ==
   /\ vI[p].busy /\ ~vI[p].ps.done
   /\ LET nxt == ParseLine(vI[p].ps, Pool[vI[p].doc], vI[p].j) IN
      /\ vI' = [vI EXCEPT ![p] = [@ EXCEPT !.ps = nxt, !.j = @ + 1]]
      /\ vNid' = IF SharedIds THEN nxt.bs.nid ELSE vNid
   /\ vSched' = Append(vSched, <<"T", p, 0>>)
   /\ UNCHANGED <<vLines, vLine, vPs>>
End(p) ==
   /\ vI[p].busy /\ vI[p].ps.done
   /\ LET o == Outcome(vI[p].ps) IN
      /\ vI' = [vI EXCEPT ![p] = [@ EXCEPT !.busy = FALSE, !.res = Append(@, o), !.ms = vI[p].ps.ms, !.nid = o.nid]]
      /\ vNid' = IF SharedIds THEN o.nid ELSE vNid
   /\ UNCHANGED <<vSched, vLines, vLine, vPs>>
Next == \E p \in Inst : Token(p) \/ End(p) \/ \E d \in 1..Len(Pool) : Begin(p, d)
Spec == Init /\ [][Next]_svars

\* a parse starts from the initial state, whatever the instance did before
Inv_Fresh == \A p \in Inst : (vI[p].busy /\ vI[p].j = 1) => vI[p].ps.ms = InitMatcher(Default) /\ vI[p].ps.bs.stack = InitParse(Default, 0, CollectCap).bs.stack
                                                           /\ vI[p].ps.bs.comments = <<>> /\ vI[p].ps.bs.errs = <<>> /\ vI[p].ps.st = <<>>
\* every result is the solo result (ids from where the generator stood when the parse began)
Inv_Solo == \A p \in Inst : \A k \in 1..Len(vI[p].res) : (~SharedIds \/ NInst = 1) => vI[p].res[k] = Solo(vI[p].hist[k].d, vI[p].hist[k].nid0)
\* without a shared generator an instance's results do not depend on the others at all
Inv_Independent == ~SharedIds => \A p \in Inst : \A k \in 1..Len(vI[p].res) : vI[p].res[k] = Solo(vI[p].hist[k].d, vI[p].hist[k].nid0)
AllIdle == \A p \in Inst : ~vI[p].busy
Emit == (AllIdle /\ \E p \in Inst : vI[p].res # <<>>) =>
           PrintT(<<"SESSION", ToJson([sched |-> vSched, hist |-> [p \in Inst |-> vI[p].hist], res |-> [p \in Inst |-> vI[p].res]])>>)
\* sequential use only (histories): no two instances busy at once
Sequential == Cardinality({p \in Inst : vI[p].busy}) <= 1
=============================================================================
