------------------------------- MODULE MC_Layering -------------------------------
(***************************************************************************)
(* The two grains of the parser specification agree.                       *)
(*                                                                         *)
(* Gherkin.tla reads real lines (code points) in BIG steps, one per line;  *)
(* ParserL0.tla reads line KINDS in small steps with the token queue.      *)
(* For every document over a menu of real lines: classify each line by the *)
(* kind the code-point matcher gives it in the matcher state the big-step  *)
(* run has reached there (KindOf), feed those kinds to the small-step      *)
(* machine, and require at its end: the same lines delivered, the same     *)
(* lines reported as unexpected, the same final position.                  *)
(* This is the layering rule of DESIGN.md section 2.1 checked by TLC: what *)
(* MC_Language, MC_L0 and the C18 queue invariants establish at kind level *)
(* transfers to real text.                                                 *)
(***************************************************************************)
EXTENDS ParserL0, Props
CONSTANT MaxLines
Menu == JsonDeserialize("menu.json")
VARIABLE vDoc
LinesOfDoc(d) == [j \in 1..Len(d) |-> Menu[d[j]]]
BigRun(d) == RunAll(LinesOfDoc(d), "en", 0, CollectCap)
KindsOf(d) == LET run == BigRun(d)  ls == LinesOfDoc(d) IN [j \in 1..Len(ls) |-> KindOf(ls[j], run.sts[j].ms)] \o <<"#EOF">>
Init == /\ vDoc \in UNION { [1..m -> 1..Len(Menu)] : m \in 0..MaxLines }
        /\ L0Init(KindsOf(vDoc))
        /\ vLines = <<>> /\ vLine = 0 /\ vPs = 0
Next == L0Next /\ UNCHANGED <<vDoc, vLines, vLine, vPs>>
Spec == Init /\ [][Next]_<<lvars, vDoc, vLines, vLine, vPs>>
Inv_GrainsAgree == vPc = "done" =>
   LET run == BigRun(vDoc)
       unexpected == SelectSeq(run.ps.bs.errs, LAMBDA e : e.kind \in {"unexpected", "eof"}) IN
   /\ vDelivered = [j \in 1..Len(run.toks) |-> run.toks[j].line]
   /\ vReported = [j \in 1..Len(unexpected) |-> unexpected[j].line]
   /\ vSt = run.ps.st
=============================================================================
