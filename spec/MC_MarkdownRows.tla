---------------------------- MODULE MC_MarkdownRows ----------------------------
(***************************************************************************)
(* C19: table rows (indentation 0..8, ordinary and GFM separator rows) and *)
(* tag lines (backtick-quoted '@' words among other text) for the Markdown *)
(* matcher, over small alphabets, complete up to MaxLen.                   *)
(***************************************************************************)
EXTENDS Markdown, Json
CONSTANTS MaxLen, TagLen
RowAlpha == {PIPE, 45, 58, 32, 120}            \* | - : blank x
TagAlpha == {BACKTICK, AT, 32, 120}
TagAlphaH == {BACKTICK, AT, 32, 120, 35}       \* with '#': nothing on a Markdown tag line starts a comment
VARIABLES vKind, vN, vBody, vSeen
Init == /\ vSeen = FALSE
        /\ \/ vKind = "row" /\ vN \in 0..8 /\ vBody \in UNION { [1..m -> RowAlpha] : m \in 0..MaxLen }
           \/ vKind = "tags" /\ vN \in 0..1 /\ vBody \in UNION { [1..m -> TagAlpha] : m \in 0..TagLen }
           \/ vKind = "tagsh" /\ vN \in 0..1 /\ vBody \in { b \in UNION { [1..m -> TagAlphaH] : m \in 0..(TagLen - 1) } : \E j \in DOMAIN b : b[j] = 35 }
Next == ~vSeen /\ vSeen' = TRUE /\ UNCHANGED <<vKind, vN, vBody>>
Spec == Init /\ [][Next]_<<vKind, vN, vBody, vSeen>>
\* indentation: vN blanks; for rows every third case uses tabs, every third a tab first and spaces after (a tab is ONE blank)
IndentOf == IF vKind = "row" /\ (vN + Len(vBody)) % 3 = 1 THEN [j \in 1..vN |-> 9]
            ELSE IF vKind = "row" /\ (vN + Len(vBody)) % 3 = 2 /\ vN > 0 THEN <<9>> \o [j \in 1..(vN - 1) |-> 32]
            ELSE [j \in 1..vN |-> 32]
TestLine == IF vKind = "row" THEN IndentOf \o <<PIPE>> \o vBody \o <<LF>> ELSE IndentOf \o vBody \o <<LF>>
Res == IF vKind = "row" THEN MdRow(TestLine) ELSE MdTags(TestLine)
\* "a table row is recognised only when indented two to five blanks and not a GFM separator row"
Inv_RowWindow == (vSeen /\ vKind = "row") =>
   /\ (Res.ok => vN \in 2..5)
   /\ (Res.ok => \A j \in 1..Len(Res.items) : ~IsSepCell(Res.items[j].text))
   /\ ((vN \in 2..5 /\ \A j \in 1..Len(CellsOf(TestLine)) : ~IsSepCell(CellsOf(TestLine)[j].text)) => Res.ok)
\* "tags are the backtick-quoted '@' words of a line, each with its own column"
Inv_Tags == (vSeen /\ vKind # "row" /\ Res.ok) => \A j \in 1..Len(Res.items) : LET it == Res.items[j] IN
   /\ TestLine[it.col] = AT /\ TestLine[it.col - 1] = BACKTICK
   /\ StartsWith(From(TestLine, it.col), it.text \o <<BACKTICK>>)
   /\ Len(it.text) >= 2 /\ \A m \in 1..Len(it.text) : it.text[m] # BACKTICK
   /\ (j < Len(Res.items) => it.col + Len(it.text) < Res.items[j + 1].col)
Emit == vSeen => PrintT(<<"MDR", ToJson([kind |-> IF vKind = "row" THEN "row" ELSE "tags", line |-> TestLine, ok |-> Res.ok, items |-> IF Res.ok THEN Res.items ELSE <<>>])>>)
=============================================================================
