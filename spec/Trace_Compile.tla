----------------------------- MODULE Trace_Compile -----------------------------
(***************************************************************************)
(* code -> spec for the compiler ALONE, on ASTs that need not come from    *)
(* the parser (C06-C10 quantify over "documents / ASTs").  asts.json:      *)
(* recorded executions of the real Compiler.compile -- the AST it was      *)
(* given (projected like every AST of this specification), the uri, the    *)
(* id counter before, the pickles it returned and the counter after.       *)
(* One initial state per execution, one step: the recorded pickles must    *)
(* equal the operational compiler of Compiler.tla on that AST, and the     *)
(* declarative property predicates of Props.tla are evaluated on the       *)
(* recorded pickles.  The harness feeds ASTs as parsed, after a JSON round *)
(* trip, and with the scenario / rule children of feature and rules in     *)
(* other orders (backgrounds first, so that the declarative reading        *)
(* applies).                                                               *)
(***************************************************************************)
EXTENDS Props
Items == JsonDeserialize("asts.json")
VARIABLES vTid, vSeen
tcvars == <<vTid, vSeen, vLines, vLine, vPs>>
Init == vTid \in 1..Len(Items) /\ vSeen = FALSE /\ vLines = <<>> /\ vLine = 0 /\ vPs = 0
Next == ~vSeen /\ vSeen' = TRUE /\ UNCHANGED <<vTid, vLines, vLine, vPs>>
Spec == Init /\ [][Next]_tcvars
Verdict == LET d == Items[vTid]
               spec == CompileFrom(d.ast, d.uri, d.nid)
               eps == EPs(d.ast, d.uri) IN
   [ tid |-> vTid, name |-> d.name,
     operational |-> d.pickles = spec.pickles,
     counter |-> d.nid_after = spec.nid,
     c06 |-> P_C06(d.pickles, eps), c07 |-> P_C07(d.pickles, eps), c08 |-> P_C08(d.pickles, eps), c09 |-> P_C09(d.pickles, eps), c10 |-> P_C10(d.pickles, eps),
     spec |-> IF d.pickles = spec.pickles THEN <<>> ELSE <<spec.pickles>> ]
Report == vSeen => PrintT(<<"CDONE", ToJson(Verdict)>>)
=============================================================================
