------------------------------ MODULE Grammar ------------------------------
(***************************************************************************)
(* gherkin.berp as data, and the parser table DERIVED from it.             *)
(*                                                                         *)
(* Rules/Hints/Ignored transcribe the grammar file (harness/berp.py reads  *)
(* /repo/gherkin.berp and checks that this transcription equals the file). *)
(* Everything else is computed: a grammar position is the stack of frames  *)
(* <<rule, element index>> from the start rule down to the token just      *)
(* consumed; After(frames) lists, in Berp's order, the transitions leaving *)
(* that position, each with the builder calls ("S" start rule, "E" end     *)
(* rule, "B" build token) Berp emits and the look-ahead hint guarding it.  *)
(* The 65 reachable positions quotient (harness/table.py, bisimulation) to *)
(* the 43 numbered states of the generated parsers.                        *)
(***************************************************************************)
EXTENDS Naturals, Sequences, FiniteSets, TLC, SequencesExt

E(s, m) == [s |-> s, m |-> m]

\* kind: "seq" or "alt"; ast: TRUE if rule is marked with '!'
Rules == [
  GherkinDocument   |-> [kind |-> "seq", ast |-> TRUE,  els |-> <<E("Feature","?"), E("#EOF","1")>>],
  Feature           |-> [kind |-> "seq", ast |-> TRUE,  els |-> <<E("FeatureHeader","1"), E("Background","?"), E("ScenarioDefinition","*"), E("Rule","*")>>],
  FeatureHeader     |-> [kind |-> "seq", ast |-> TRUE,  els |-> <<E("#Language","?"), E("Tags","?"), E("#FeatureLine","1"), E("DescriptionHelper","1")>>],
  Rule              |-> [kind |-> "seq", ast |-> TRUE,  els |-> <<E("RuleHeader","1"), E("Background","?"), E("ScenarioDefinition","*")>>],
  RuleHeader        |-> [kind |-> "seq", ast |-> TRUE,  els |-> <<E("Tags","?"), E("#RuleLine","1"), E("DescriptionHelper","1")>>],
  Background        |-> [kind |-> "seq", ast |-> TRUE,  els |-> <<E("#BackgroundLine","1"), E("DescriptionHelper","1"), E("Step","*")>>],
  ScenarioDefinition|-> [kind |-> "seq", ast |-> TRUE,  els |-> <<E("Tags","?"), E("Scenario","1")>>],
  Scenario          |-> [kind |-> "seq", ast |-> TRUE,  els |-> <<E("#ScenarioLine","1"), E("DescriptionHelper","1"), E("Step","*"), E("ExamplesDefinition","*")>>],
  ExamplesDefinition|-> [kind |-> "seq", ast |-> TRUE,  els |-> <<E("Tags","?"), E("Examples","1")>>],
  Examples          |-> [kind |-> "seq", ast |-> TRUE,  els |-> <<E("#ExamplesLine","1"), E("DescriptionHelper","1"), E("ExamplesTable","?")>>],
  ExamplesTable     |-> [kind |-> "seq", ast |-> TRUE,  els |-> <<E("#TableRow","1"), E("#TableRow","*")>>],
  Step              |-> [kind |-> "seq", ast |-> TRUE,  els |-> <<E("#StepLine","1"), E("StepArg","?")>>],
  StepArg           |-> [kind |-> "seq", ast |-> FALSE, els |-> <<E("__alt0","1")>>],
  __alt0            |-> [kind |-> "alt", ast |-> FALSE, els |-> <<E("DataTable","1"), E("DocString","1")>>],
  DataTable         |-> [kind |-> "seq", ast |-> TRUE,  els |-> <<E("#TableRow","+")>>],
  DocString         |-> [kind |-> "seq", ast |-> TRUE,  els |-> <<E("#DocStringSeparator","1"), E("#Other","*"), E("#DocStringSeparator","1")>>],
  Tags              |-> [kind |-> "seq", ast |-> TRUE,  els |-> <<E("#TagLine","+")>>],
  DescriptionHelper |-> [kind |-> "seq", ast |-> FALSE, els |-> <<E("#Empty","*"), E("Description","?")>>],
  Description       |-> [kind |-> "seq", ast |-> TRUE,  els |-> <<E("__alt1","+")>>],
  __alt1            |-> [kind |-> "alt", ast |-> FALSE, els |-> <<E("#Other","1"), E("#Comment","1")>>]
]
RuleNames == DOMAIN Rules
IsTok(s) == s \notin RuleNames

\* look-ahead hints: rule |-> [id, tok, expect, skip]
Hints == [ ScenarioDefinition |-> [id |-> 0, tok |-> "#TagLine", expect |-> "#ScenarioLine", skip |-> {"#Empty","#Comment","#TagLine"}],
           ExamplesDefinition |-> [id |-> 1, tok |-> "#TagLine", expect |-> "#ExamplesLine", skip |-> {"#Empty","#Comment","#TagLine"}] ]
Ignored == <<"#Comment", "#Empty">>
NoHint == 99

Opt(m) == m \in {"?", "*"}
Rep(m) == m \in {"*", "+"}

RECURSIVE Nullable(_)
Nullable(r) == LET R == Rules[r] IN
   IF R.kind = "seq" THEN \A i \in 1..Len(R.els) : Opt(R.els[i].m) \/ (~IsTok(R.els[i].s) /\ Nullable(R.els[i].s))
   ELSE \E i \in 1..Len(R.els) : ~IsTok(R.els[i].s) /\ Nullable(R.els[i].s)

F(r, i) == [r |-> r, i |-> i]   \* frame: rule r, element index i (1-based)

\* Enter element i of the rule on top of `frames` (a frame seq whose top has index i).
\* Returns sequence of transitions [tok, la, prods, target]
RECURSIVE EnterEl(_, _, _), EnterRule(_, _, _, _), FromIdx(_, _, _, _)
EnterEl(frames, pre, la) ==
  LET top == frames[Len(frames)]  e == Rules[top.r].els[top.i] IN
  IF IsTok(e.s) THEN << [tok |-> e.s, la |-> (IF \E h \in DOMAIN Hints : Hints[h].id = la /\ Hints[h].tok = e.s THEN la ELSE NoHint), prods |-> pre \o << <<"B", "">> >>, target |-> frames] >>
  ELSE LET la2 == IF e.s \in DOMAIN Hints THEN Hints[e.s].id ELSE la
           pre2 == IF Rules[e.s].ast THEN Append(pre, <<"S", e.s>>) ELSE pre
       IN EnterRule(frames, e.s, pre2, la2)
\* transitions available at the start of rule r (pushed under frames)
EnterRule(frames, r, pre, la) ==
  IF Rules[r].kind = "alt"
  THEN FlattenSeq([ i \in 1..Len(Rules[r].els) |-> EnterEl(Append(frames, F(r, i)), pre, la) ])
  ELSE FromIdx(frames, r, 1, [pre |-> pre, la |-> la])
\* transitions obtainable starting at element i of seq rule r (skipping optional elements); does NOT include leaving the rule
FromIdx(frames, r, i, c) ==
  IF i > Len(Rules[r].els) THEN <<>>
  ELSE LET e == Rules[r].els[i]
           here == EnterEl(Append(frames, F(r, i)), c.pre, c.la)
           skippable == Opt(e.m) \/ (~IsTok(e.s) /\ Nullable(e.s))
       IN IF skippable THEN here \o FromIdx(frames, r, i + 1, c) ELSE here

\* can the rest of seq rule r from element i on be empty?
RECURSIVE RestNullable(_, _)
RestNullable(r, i) == IF i > Len(Rules[r].els) THEN TRUE
   ELSE LET e == Rules[r].els[i] IN (Opt(e.m) \/ (~IsTok(e.s) /\ Nullable(e.s))) /\ RestNullable(r, i + 1)

\* transitions after having completed element frames[top] (token consumed or sub-rule ended), pre = productions so far
RECURSIVE After(_, _)
After(frames, pre) ==
  IF frames = <<>> THEN <<>> ELSE
  LET n == Len(frames)  top == frames[n]  R == Rules[top.r]  e == R.els[top.i]
      below == SubSeq(frames, 1, n - 1)
      again == IF Rep(e.m) THEN EnterEl(frames, pre, NoHint) ELSE <<>>
      next  == IF R.kind = "seq" THEN FromIdx(below, top.r, top.i + 1, [pre |-> pre, la |-> NoHint]) ELSE <<>>
      canEnd == IF R.kind = "seq" THEN RestNullable(top.r, top.i + 1) ELSE TRUE
      pre2  == IF R.ast THEN Append(pre, <<"E", top.r>>) ELSE pre
      up    == IF canEnd THEN After(below, pre2) ELSE <<>>
  IN again \o next \o up

\* Berp ordering: group by token (first occurrence order), EOF first, Other last, then ignored tokens if no Other
Toks(ts) == [i \in 1..Len(ts) |-> ts[i].tok]
RECURSIVE Dedup(_)
Dedup(s) == IF s = <<>> THEN <<>> ELSE LET h == Head(s) IN <<h>> \o Dedup(SelectSeq(Tail(s), LAMBDA x : x # h))
\* drop later transitions that have same (tok, la) as an earlier one
RECURSIVE FirstWins(_)
FirstWins(ts) == IF ts = <<>> THEN <<>> ELSE LET h == Head(ts) IN <<h>> \o FirstWins(SelectSeq(Tail(ts), LAMBDA x : ~(x.tok = h.tok /\ x.la = h.la)))

Ordered(frames, raw) ==
  LET ts == FirstWins(raw)
      toks == Dedup(Toks(ts))
      hasOther == \E i \in 1..Len(toks) : toks[i] = "#Other"
      core == SelectSeq(toks, LAMBDA t : t \notin {"#EOF", "#Other"})
      order == (IF \E i \in 1..Len(toks) : toks[i] = "#EOF" THEN <<"#EOF">> ELSE <<>>) \o core \o (IF hasOther THEN <<"#Other">> ELSE <<>>)
      grouped == FlattenSeq([ k \in 1..Len(order) |-> SelectSeq(ts, LAMBDA x : x.tok = order[k]) ])
      ign == IF hasOther THEN <<>> ELSE
             FlattenSeq([ k \in 1..Len(Ignored) |-> IF \E i \in 1..Len(toks) : toks[i] = Ignored[k] THEN <<>>
                           ELSE << [tok |-> Ignored[k], la |-> NoHint, prods |-> << <<"B", "">> >>, target |-> frames] >> ])
  IN grouped \o ign

StartTrans == Ordered(<<>>, EnterRule(<<>>, "GherkinDocument", <<>>, NoHint))
Trans(frames) == IF frames = <<>> THEN StartTrans ELSE Ordered(frames, After(frames, <<>>))

IsEnd(frames) == frames # <<>> /\ Rules[frames[Len(frames)].r].els[frames[Len(frames)].i].s = "#EOF"

RECURSIVE Reach(_, _)
Reach(seen, frontier) ==
  IF frontier = {} THEN seen ELSE
  LET nxt == UNION { { Trans(f)[k].target : k \in 1..Len(Trans(f)) } : f \in {x \in frontier : ~IsEnd(x)} }
      new == nxt \ (seen \cup frontier)
  IN Reach(seen \cup frontier, new)
AllStates == Reach({}, {<<>>})


(***************************************************************************)
(* Derived views used by the parser specification and by the properties.   *)
(***************************************************************************)
States == {x \in AllStates : ~IsEnd(x)}
\* TLCEval forces the (lazy) function constructor once; without it TLC re-derives a row at every application
Table == TLCEval([f \in States |-> TLCEval(Trans(f))])
\* the token kinds the parser lists in an unexpected-token message at a position
RECURSIVE DedupG(_)
DedupG(s) == IF s = <<>> THEN <<>> ELSE <<Head(s)>> \o DedupG(SelectSeq(Tail(s), LAMBDA x : x # Head(s)))
ExpectedAt(trs) == DedupG([j \in 1..Len(trs) |-> trs[j].tok])
\* the AST rules ('!') open at a grammar position, outermost first = what the builder stack must hold
AstPath(frames) == SelectSeq([j \in 1..Len(frames) |-> frames[j].r], LAMBDA r : Rules[r].ast)
HintById(id) == CHOOSE h \in {Hints[r] : r \in DOMAIN Hints} : h.id = id

(***************************************************************************)
(* Token-kind level.  A line has one of 13 intrinsic kinds (or is the end  *)
(* of file).  It is READ as token t where: t is its own kind; or t is      *)
(* #Other and the line is not the end of file (anything is free text where *)
(* free text is expected -- the ordered table tries #Other last, so this   *)
(* applies only where the own kind is not expected); or t is #Comment and  *)
(* the line is a language header (which is a comment wherever #Language is *)
(* not expected, in particular during look-ahead).                         *)
(***************************************************************************)
Kinds == {"#Empty", "#Comment", "#TagLine", "#FeatureLine", "#RuleLine", "#BackgroundLine", "#ScenarioLine", "#ExamplesLine", "#StepLine",
          "#DocStringSeparator", "#TableRow", "#Language", "#Other"}
Reads(k, t) == (k = t) \/ (t = "#Other" /\ k # "#EOF") \/ (t = "#Comment" /\ k = "#Language")

\* the transition of position f that fires on a line of kind k when the look-ahead oracle is o:
\* o = "S" / "E" / "N": the next line that is not a tag, comment or blank line is a Scenario line / an Examples line / neither
OracleOk(la, o) == la = NoHint \/ (la = 0 /\ o = "S") \/ (la = 1 /\ o = "E")
FireIndex(f, k, o) == LET c == {j \in 1..Len(Table[f]) : Reads(k, Table[f][j].tok) /\ OracleOk(Table[f][j].la, o)} IN
                      IF c = {} THEN 0 ELSE CHOOSE j \in c : \A m \in c : j <= m

(***************************************************************************)
(* The grammar read as a plain nondeterministic position automaton: no     *)
(* ordering, no productions, no hints, no ignored-token loops.  It gives   *)
(* an independent definition of "sentence" and "viable prefix" against     *)
(* which the ordered, hinted parser table is compared (MC_Language).       *)
(***************************************************************************)
RawT(f) == IF f = <<>> THEN EnterRule(<<>>, "GherkinDocument", <<>>, NoHint) ELSE After(f, <<>>)
RawSucc(f) == { <<RawT(f)[j].tok, RawT(f)[j].target>> : j \in 1..Len(RawT(f)) }
RawTable == TLCEval([f \in States |-> RawSucc(f)])
\* one step of the subset construction on a line kind: read by the rule of Reads, comments and blank lines loop where free text is not expected
NfaExpected(S) == UNION { {e[1] : e \in RawTable[p]} : p \in {q \in S : ~IsEnd(q)} }
NfaRead(S, k0) == LET ex == NfaExpected(S)  k == IF k0 = "#Language" /\ k0 \notin ex THEN "#Comment" ELSE k0 IN
                  IF k \in ex THEN k ELSE IF "#Other" \in ex /\ k # "#EOF" THEN "#Other" ELSE k
NfaStep(S, k) == LET ex == NfaExpected(S)  r == NfaRead(S, k) IN
                 IF r \in ex THEN UNION { {e[2] : e \in {x \in RawTable[p] : x[1] = r}} : p \in {q \in S : ~IsEnd(q)} }
                 ELSE IF r \in {"#Comment", "#Empty"} /\ "#Other" \notin ex THEN S
                 ELSE {}
RECURSIVE NfaRun(_, _, _)
NfaRun(S, kinds, j) == IF j > Len(kinds) THEN S ELSE NfaRun(NfaStep(S, kinds[j]), kinds, j + 1)
\* is the sequence of line kinds (without the end of file) a sentence of the grammar?
IsSentence(kinds) == \E p \in NfaRun({<<>>}, kinds \o <<"#EOF">>, 1) : IsEnd(p)
=============================================================================
