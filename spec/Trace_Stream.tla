------------------------------ MODULE Trace_Stream ------------------------------
(***************************************************************************)
(* code -> spec for the stream API.  runs.json: recorded executions of the *)
(* real GherkinEvents over a sequence of sources, with the option set in   *)
(* force for each source (the caller may change it between sources); for   *)
(* every source the envelopes it yielded (projected onto the abstract      *)
(* envelopes of Stream.tla) and the SHAPE of each raw envelope.            *)
(* One initial state per run; one step per source (action ProcessNext is   *)
(* Stream!Process); each step compares the recorded envelopes with the     *)
(* specification's, checks every recorded shape against Messages.tla and   *)
(* evaluates the C17 / C11 predicates on the recorded envelopes.           *)
(***************************************************************************)
EXTENDS Stream, Messages
Runs == JsonDeserialize("runs.json")
\* shapes of the envelopes in the acceptance corpus' reference .ndjson files: they validate the transcription in Messages.tla
RefShapes == JsonDeserialize("refshapes.json")
ASSUME \A j \in 1..Len(RefShapes) : WellFormedEnvelope(RefShapes[j].shape) \/ PrintT(<<"REFSHAPE", ToJson([file |-> RefShapes[j].file, n |-> RefShapes[j].n])>>)
VARIABLES vRid, vIdx, vNid, vBad
svars == <<vRid, vIdx, vNid, vBad, vLines, vLine, vPs>>
Init == vRid \in 1..Len(Runs) /\ vIdx = 1 /\ vNid = 0 /\ vBad = <<>> /\ vLines = <<>> /\ vLine = 0 /\ vPs = 0
Run == Runs[vRid]
Report(clause, detail) == IF PrintT(<<"SMISMATCH", ToJson([rid |-> vRid, name |-> Run.name, src |-> vIdx, clause |-> clause, detail |-> detail])>>) THEN <<clause, vIdx>> ELSE <<>>
ProcessNext ==
   /\ vBad = <<>> /\ vIdx <= Len(Run.sources)
   /\ LET src == Run.sources[vIdx]
          opts == Run.optseq[vIdx]
          r == Process(src, vNid, opts)
          got == Run.envs[vIdx]
          shapes == Run.shapes[vIdx]
          accepted == \A j \in 1..Len(got) : got[j].k # "error"
          badShape == {j \in 1..Len(shapes) : ~WellFormedEnvelope(shapes[j])} IN
      /\ vNid' = r.nid
      /\ vBad' = IF r.out # got THEN Report("envelopes", [spec |-> r.out])
                 ELSE IF badShape # {} THEN Report("shape", [index |-> CHOOSE j \in badShape : TRUE])
                 ELSE IF ~P_C17_Order(got) THEN Report("order", <<>>)
                 ELSE IF ~P_C17_Options(got, opts, accepted) THEN Report("options", <<>>)
                 ELSE IF ~P_C17_Uri(got, src) THEN Report("uri", <<>>)
                 ELSE <<>>
      /\ vIdx' = vIdx + 1
   /\ UNCHANGED <<vRid, vLines, vLine, vPs>>
Spec == Init /\ [][ProcessNext]_svars
Done == vBad = <<>> /\ vIdx > Len(Run.sources)
EndReport == Done => PrintT(<<"SDONE", ToJson([rid |-> vRid, unique |-> P_C11_StreamUnique(Run.envs), nid |-> vNid])>>)
=============================================================================
