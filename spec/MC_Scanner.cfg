SPECIFICATION Spec
CONSTANT MaxLen = 4
CONSTRAINT Emit
INVARIANT Inv_Machine
INVARIANT Inv_Partition
INVARIANT Inv_NumbersCountOn
INVARIANT Inv_FileIsCrLfString
INVARIANT Inv_DeviationConfined
INVARIANT Inv_DocumentedOutside
CHECK_DEADLOCK FALSE
