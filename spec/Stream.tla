--------------------------------- MODULE Stream ---------------------------------
(***************************************************************************)
(* GherkinEvents: one parser, one compiler and ONE id generator shared by  *)
(* all sources of a stream; three print options.                           *)
(*                                                                         *)
(* Process(src, nid, opts) is GherkinEvents.enum(source_event): the        *)
(* envelopes it yields and the id counter afterwards.                      *)
(*   src  = [uri : code points, data : code points]                        *)
(*   opts = [source, ast, pickles : BOOLEAN]                               *)
(* Envelopes (abstract):                                                   *)
(*   [k |-> "source", uri, data]   [k |-> "doc", uri, ast]                 *)
(*   [k |-> "pickle", pickle]      [k |-> "error", uri, err]               *)
(* The parser of a stream is created with default arguments: the default   *)
(* dialect is always "en", the error mode is collecting.                   *)
(***************************************************************************)
EXTENDS Props

Process(src, nid, opts) ==
   LET ps == ParseAll(SplitLines(src.data), "en", nid, CollectCap) IN
   IF Rejected(ps) THEN
        [out |-> [j \in 1..Len(ps.bs.errs) |-> [k |-> "error", uri |-> src.uri, err |-> ps.bs.errs[j]]], nid |-> NidAfter(ps)]
   ELSE LET doc == DocumentOf(ps)
            c == IF opts.pickles THEN CompileFrom(doc, src.uri, NidAfter(ps)) ELSE [pickles |-> <<>>, nid |-> NidAfter(ps)] IN
        [out |-> (IF opts.source THEN << [k |-> "source", uri |-> src.uri, data |-> src.data] >> ELSE <<>>)
                 \o (IF opts.ast THEN << [k |-> "doc", uri |-> src.uri, ast |-> doc] >> ELSE <<>>)
                 \o [j \in 1..Len(c.pickles) |-> [k |-> "pickle", pickle |-> c.pickles[j]]],
         nid |-> c.nid]

RECURSIVE RunStream(_, _, _, _)
\* the whole stream: acc = [out : Seq(Seq(envelope)) one per source, nid]
RunStream(srcs, j, opts, acc) == IF j > Len(srcs) THEN acc ELSE
   LET r == Process(srcs[j], acc.nid, opts) IN RunStream(srcs, j + 1, opts, [out |-> Append(acc.out, r.out), nid |-> r.nid])
StreamOf(srcs, opts) == RunStream(srcs, 1, opts, [out |-> <<>>, nid |-> 0])

(***************************************************************************)
(* C17 / C11 over the envelopes of a stream (segs: one envelope sequence   *)
(* per source, in the order the sources were given).                       *)
(***************************************************************************)
Kinds2(seg) == [j \in 1..Len(seg) |-> seg[j].k]
Rank(k) == CASE k = "source" -> 1 [] k = "doc" -> 2 [] k = "pickle" -> 3 [] OTHER -> 0
\* "in this order ...: the source envelope, one gherkinDocument envelope, the pickle envelopes; for a rejected source only parseError envelopes"
P_C17_Order(seg) ==
   \/ (seg # <<>> /\ \A j \in 1..Len(seg) : seg[j].k = "error")
   \/ /\ \A j \in 1..Len(seg) : seg[j].k \in {"source", "doc", "pickle"}
      /\ \A a, b \in 1..Len(seg) : a < b => Rank(seg[a].k) <= Rank(seg[b].k)
      /\ Cardinality({j \in 1..Len(seg) : seg[j].k = "source"}) <= 1
      /\ Cardinality({j \in 1..Len(seg) : seg[j].k = "doc"}) <= 1
\* "subject to the three print options"
P_C17_Options(seg, opts, accepted) ==
   accepted => /\ (Cardinality({j \in 1..Len(seg) : seg[j].k = "source"}) = IF opts.source THEN 1 ELSE 0)
               /\ (Cardinality({j \in 1..Len(seg) : seg[j].k = "doc"}) = IF opts.ast THEN 1 ELSE 0)
               /\ (~opts.pickles => \A j \in 1..Len(seg) : seg[j].k # "pickle")
\* every envelope carries the uri of its source; the source envelope the text unchanged
P_C17_Uri(seg, src) == \A j \in 1..Len(seg) :
   /\ (seg[j].k \in {"source", "doc", "error"} => seg[j].uri = src.uri)
   /\ (seg[j].k = "pickle" => seg[j].pickle.uri = src.uri)
   /\ (seg[j].k = "source" => seg[j].data = src.data)
\* C11: all ids handed out in one stream are pairwise distinct
RECURSIVE AstIdsOf(_)
AstIdsOf(doc) == CanonicalAstIds(doc)
IdsOfSeg(seg) == FlattenSeq([j \in 1..Len(seg) |-> IF seg[j].k = "doc" THEN AstIdsOf(seg[j].ast)
                                                    ELSE IF seg[j].k = "pickle" THEN CanonicalPickleIds(<<seg[j].pickle>>) ELSE <<>>])
P_C11_StreamUnique(segs) == LET ids == FlattenSeq([j \in 1..Len(segs) |-> IdsOfSeg(segs[j])]) IN NoDup(ids)
=============================================================================
