SPECIFICATION Spec
CONSTRAINT EndReport
CHECK_DEADLOCK FALSE
