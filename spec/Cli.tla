---------------------------------- MODULE Cli ----------------------------------
(***************************************************************************)
(* scripts/generate_events.py: the command line in front of the stream.    *)
(* argv is a sequence of words; a word is one of the three flags or the    *)
(* name of a file.  As the option parser reads it: flags and file names    *)
(* may be mixed in any order, a flag given twice counts once, the options  *)
(* hold for the whole run; the files are read (as UTF-8, text unchanged)   *)
(* and fed, in the order given, to ONE stream object; every envelope is    *)
(* printed as one JSON line.                                               *)
(***************************************************************************)
EXTENDS Stream
Flags == {"--no-source", "--no-ast", "--no-pickles"}
OptsOf(argv) == [source |-> ~\E j \in 1..Len(argv) : argv[j] = "--no-source",
                 ast |-> ~\E j \in 1..Len(argv) : argv[j] = "--no-ast",
                 pickles |-> ~\E j \in 1..Len(argv) : argv[j] = "--no-pickles"]
FilesOf(argv) == SelectSeq(argv, LAMBDA w : w \notin Flags)
\* fs: file name (a string of the model) -> [uri : code points of that name, data : code points of the file's text]
SourcesOf(argv, fs) == LET fl == FilesOf(argv) IN [j \in 1..Len(fl) |-> fs[fl[j]]]
Output(argv, fs) == StreamOf(SourcesOf(argv, fs), OptsOf(argv)).out      \* one envelope sequence per file, printed one after the other
=============================================================================
