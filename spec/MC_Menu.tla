-------------------------------- MODULE MC_Menu --------------------------------
(***************************************************************************)
(* spec -> code.  The input is every sequence of at most MaxLines lines    *)
(* drawn from a finite MENU of concrete lines (menu.json, code points);    *)
(* the specification runs on that exact text and TLC prints, for every     *)
(* finished parse, the complete prediction (errors, delivered-token count, *)
(* AST, pickles, id counter).  harness/replay.py concatenates the same     *)
(* menu lines, runs the real Parser/Compiler and compares.                 *)
(*                                                                         *)
(* The property invariants of Props.tla are checked on every state.        *)
(***************************************************************************)
EXTENDS Props
CONSTANTS MaxLines, Mode, MaxErrs
Menu == JsonDeserialize("menu.json")

Init == /\ vLines \in { [j \in 1..Len(c) |-> Menu[c[j]]] : c \in UNION { [1..m -> 1..Len(Menu)] : m \in 0..MaxLines } }
        /\ vLine = 1
        /\ vPs = InitParse("en", 0, CapOf(Mode))
Next == GParseLine
Spec == Init /\ [][Next]_gvars

MenuIndex(l) == CHOOSE k \in 1..Len(Menu) : Menu[k] = l
Emit == vPs.done => PrintT(<<"BEH", ToJson([
            input |-> [j \in 1..Len(vLines) |-> MenuIndex(vLines[j])],
            errs |-> vPs.bs.errs, ndeliv |-> vPs.count,
            nid |-> IF Rejected(vPs) THEN NidAfter(vPs) ELSE CompileFrom(DocumentOf(vPs), <<117>>, NidAfter(vPs)).nid,
            ast |-> IF Rejected(vPs) THEN <<>> ELSE <<DocumentOf(vPs)>>,
            pickles |-> IF Rejected(vPs) THEN <<>> ELSE Compile(DocumentOf(vPs), <<117>>, NidAfter(vPs)) ])>>)
Bound == Len(vPs.bs.errs) <= MaxErrs
Constraint == Emit /\ Bound
=============================================================================
