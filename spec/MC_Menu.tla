-------------------------------- MODULE MC_Menu --------------------------------
(***************************************************************************)
(* spec -> code.  The input is every sequence of at most MaxLines lines    *)
(* drawn from a finite MENU of concrete lines (menu.json, code points);    *)
(* the specification runs on that exact text and TLC prints, for every     *)
(* finished parse, the complete prediction (errors, delivered-token count, *)
(* AST, pickles, id counter).  harness/replay.py concatenates the same     *)
(* menu lines, runs the real Parser/Compiler and compares.                 *)
(*                                                                         *)
(* The property invariants of Props.tla are checked on every state.        *)
(***************************************************************************)
EXTENDS Props
CONSTANTS MaxLines, Mode, MaxErrs,
          PrefixIdx       \* menu indices of a fixed prefix put before every enumerated sequence
Menu == JsonDeserialize("menu.json")

VARIABLES vToks,    \* history: the tokens delivered to the builder (a function of the input; adds no states)
          vEvents   \* history: the builder calls made for each of them
mvars == <<vLines, vLine, vPs, vToks, vEvents>>

Init == /\ vToks = <<>> /\ vEvents = <<>>
        /\ vLines \in { [j \in 1..Len(PrefixIdx \o c) |-> Menu[(PrefixIdx \o c)[j]]] : c \in UNION { [1..m -> 1..Len(Menu)] : m \in 0..MaxLines } }
        /\ vLine = 1
        /\ vPs = InitParse("en", 0, CapOf(Mode))
Next == /\ GParseLine
        /\ vToks' = IF vPs'.count = vPs.count + 1 THEN Append(vToks, Delivered(FiredAt(vPs, vLines, vLine).tok, vLine, vPs.ms)) ELSE vToks
        /\ vEvents' = IF vPs'.count = vPs.count + 1 THEN Append(vEvents, Table[vPs.st][FiredAt(vPs, vLines, vLine).hit].prods) ELSE vEvents
Spec == Init /\ [][Next]_mvars

MenuIndex(l) == CHOOSE k \in 1..Len(Menu) : Menu[k] = l
Emit == vPs.done => PrintT(<<"BEH", ToJson([
            input |-> [j \in 1..Len(vLines) |-> MenuIndex(vLines[j])],
            errs |-> vPs.bs.errs, ndeliv |-> vPs.count,
            nid |-> IF Rejected(vPs) THEN NidAfter(vPs) ELSE CompileFrom(DocumentOf(vPs), <<117>>, NidAfter(vPs)).nid,
            ast |-> IF Rejected(vPs) THEN <<>> ELSE <<DocumentOf(vPs)>>,
            pickles |-> IF Rejected(vPs) THEN <<>> ELSE Compile(DocumentOf(vPs), <<117>>, NidAfter(vPs)) ])>>)
Bound == Len(vPs.bs.errs) <= MaxErrs

(***************************************************************************)
(* The property predicates on the specification's own results.             *)
(***************************************************************************)
Acc == vPs.done /\ ~Rejected(vPs)
SDoc == DocumentOf(vPs)
SPk == Compile(SDoc, <<117>>, NidAfter(vPs))
Inv_C01 == vPs.done => P_C01_Outcome(vPs.bs.errs, vPs.bs.cap)
Inv_C02 == Acc => P_C02_Derivation(vToks, vEvents) /\ P_C02_TagOwner(SDoc, Index(SDoc))
Inv_C03 == Acc => LET ix == Index(SDoc) IN P_C03_Once(vToks, SDoc, ix) /\ P_C03_Order(SDoc, ix) /\ P_C03_Text(vLines, SDoc, ix)
                                           /\ P_C03_Desc(vLines, vToks, SDoc, ix) /\ P_C03_Within(vLines, SDoc, ix)
Inv_C04 == /\ (Acc => P_C04_ReadBack(vLines, SDoc, Index(SDoc)))
           /\ (vPs.done => P_C04_ErrLoc(vLines, vPs.bs.errs))
Inv_C05 == Acc => P_C05_Doc(vLines, SDoc, DialectInForce(vLines, "en"), Index(SDoc))
Inv_C06 == Acc => P_C06(SPk, EPs(SDoc, <<117>>))
Inv_C07 == Acc => P_C07(SPk, EPs(SDoc, <<117>>))
Inv_C08 == Acc => P_C08(SPk, EPs(SDoc, <<117>>))
Inv_C09 == Acc => P_C09(SPk, EPs(SDoc, <<117>>))
Inv_C10 == Acc => P_C10(SPk, EPs(SDoc, <<117>>))
Inv_C11 == Acc => P_C11_Canonical(SDoc, SPk, 0) /\ P_C11_Refs(SDoc, SPk, Index(SDoc))
Inv_C12 == Acc => P_C12_Cells(vLines, SDoc, Index(SDoc)) /\ P_C12_Rect(SDoc, Index(SDoc))
Inv_C13 == Acc => P_C13_DocStrings(vLines, vToks, SDoc, Index(SDoc))
Inv_C14 == vPs.done => P_C14_Once(vPs.bs.errs)
Inv_C14_Iff == vPs.done => P_C14_Iff(vLines, RunAll(vLines, "en", 0, CapOf(Mode)), Rejected(vPs))
Inv_C18 == /\ (Acc => P_C18_Accepted(vLines, vToks))
           /\ (vPs.done => P_C18_Partition(vLines, vToks, vPs.bs.errs, vPs.bs.cap))
Constraint == Emit /\ Bound
NoPrefixIdx == <<>>
=============================================================================
