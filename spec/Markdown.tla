-------------------------------- MODULE Markdown --------------------------------
(***************************************************************************)
(* The Markdown token matcher, line level (MARKDOWN_WITH_GHERKIN.md):      *)
(*  - header lines: one to six '#', ONE blank, a title keyword of the      *)
(*    role, ':' -- keyword as listed (first listed one that fits), trimmed *)
(*    title, column of the keyword;                                        *)
(*  - list items: '*', '+' or '-', optional blanks, a step keyword;        *)
(*  - table rows: indented two to five blanks, not a GFM separator row;    *)
(*  - tags: the backtick-quoted '@' words of a line, each with its column. *)
(***************************************************************************)
EXTENDS Lexer

HASHC == 35
BACKTICK == 96
RECURSIVE CountLead(_, _, _)
CountLead(s, c, k) == IF k <= Len(s) /\ s[k] = c THEN CountLead(s, c, k + 1) ELSE k - 1
\* header prefix of the left-trimmed line: its length (hashes + one blank), 0 when there is none
HeaderPrefixLen(t) == LET h == CountLead(t, HASHC, 1) IN IF h >= 1 /\ h <= 6 /\ Len(t) > h /\ IsWs(t[h + 1]) THEN h + 1 ELSE 0
\* the text of a line up to (not including) its line feed: what '.*' can match
RECURSIVE UpToLf(_, _)
UpToLf(s, k) == IF k > Len(s) \/ s[k] = LF THEN SubSeq(s, 1, k - 1) ELSE UpToLf(s, k + 1)
MdTitle(l, type, kws) == LET t == LTrim(l)  p == HeaderPrefixLen(t) IN
   IF p = 0 THEN NoTok ELSE
   LET rest == From(t, p + 1)  m == FirstKw(rest, kws, <<COLON>>) IN
   IF m = <<>> THEN NoTok
   ELSE Tok(type, Indent(l) + p + 1, m[1], "", Trim(UpToLf(From(rest, Len(m[1]) + 2), 1)), 0, <<>>)
\* bullet prefix: the bullet and the blanks after it
BulletPrefixLen(t) == IF t # <<>> /\ t[1] \in {42, 43, 45} THEN 1 + LeadWs(From(t, 2), 1) ELSE 0
MdStep(l, D) == LET t == LTrim(l)  p == BulletPrefixLen(t) IN
   IF p = 0 THEN NoTok ELSE
   LET rest == From(t, p + 1)  m == FirstKw(rest, StepKws(D), <<>>) IN
   IF m = <<>> THEN NoTok
   ELSE Tok("StepLine", Indent(l) + p + 1, m[1], "", Trim(UpToLf(From(rest, Len(m[1]) + 1), 1)), 0, <<>>)
\* GFM separator cell:  :?-+:?
IsSepCell(c0) == LET c == IF c0 # <<>> /\ c0[Len(c0)] = LF THEN SubSeq(c0, 1, Len(c0) - 1) ELSE c0      \* ('$' also matches before a final line feed)
                    a == IF c # <<>> /\ c[1] = 58 THEN Tail(c) ELSE c
                    b == IF a # <<>> /\ a[Len(a)] = 58 THEN SubSeq(a, 1, Len(a) - 1) ELSE a
                IN b # <<>> /\ \A j \in 1..Len(b) : b[j] = 45
MdRow(l) == LET n == Indent(l) IN
   IF ~(n >= 2 /\ n <= 5 /\ Len(l) > n /\ l[n + 1] = PIPE) THEN NoTok
   ELSE IF \E j \in 1..Len(CellsOf(l)) : IsSepCell(CellsOf(l)[j].text) THEN NoTok
   ELSE Tok("TableRow", n + 1, <<PIPE>>, "", <<>>, 1, CellsOf(l))
\* tags: leftmost non-overlapping  `@...`  with at least one character other than a backtick after the '@'... i.e. `(@[^`]+)`
RECURSIVE NextTick(_, _)
NextTick(s, k) == IF k > Len(s) THEN 0 ELSE IF s[k] = BACKTICK THEN k ELSE NextTick(s, k + 1)
RECURSIVE MdTagScan(_, _, _)
MdTagScan(t, k, ind) ==
   IF k + 2 > Len(t) THEN <<>>
   ELSE IF t[k] = BACKTICK /\ t[k + 1] = AT THEN
        LET e == NextTick(t, k + 2) IN
        IF e = 0 \/ e = k + 2 THEN MdTagScan(t, k + 1, ind)   \* no closing tick, or nothing after the '@': no tag starts here
        ELSE << [col |-> ind + k + 1, text |-> SubSeq(t, k + 1, e - 1)] >> \o MdTagScan(t, e + 1, ind)
   ELSE MdTagScan(t, k + 1, ind)
MdTags(l) == LET its == MdTagScan(LTrim(l), 1, Indent(l)) IN IF its = <<>> THEN NoTok ELSE Tok("TagLine", Indent(l) + 1, <<>>, "", <<>>, 1, its)
=============================================================================
