------------------------------- MODULE MC_Table -------------------------------
(***************************************************************************)
(* Derives the parser table from the grammar data and prints it (states    *)
(* as frame paths, ordered transitions with hint, productions and target,  *)
(* expected-token lists) together with the grammar data itself, for        *)
(*  - harness/table.py: comparison of Rules/Hints with /repo/gherkin.berp, *)
(*    bisimulation of the derived table with parser.py and the sibling     *)
(*    generated parsers, per-transition drive of Parser.match_token;       *)
(* and checks structural sanity of the derivation:                         *)
(*  - determinism: in every position at most one unhinted transition per   *)
(*    token, hinted ones before it;                                        *)
(*  - every position lists #EOF first and #Other last when present;        *)
(*  - the builder stack discipline: productions of every transition turn   *)
(*    the AST-rule path of the source position into that of the target.    *)
(***************************************************************************)
EXTENDS Grammar, Json
VARIABLE vX
Init == vX = 0
Next == UNCHANGED vX
Spec == Init /\ [][Next]_vX

StateSeq == SetToSeq(AllStates)
RuleSeq == SetToSeq(RuleNames)
Dump == [ states |-> [k \in 1..Len(StateSeq) |-> [state |-> StateSeq[k], isEnd |-> IsEnd(StateSeq[k]),
                        astPath |-> AstPath(StateSeq[k]),
                        trans |-> IF IsEnd(StateSeq[k]) THEN <<>> ELSE Table[StateSeq[k]],
                        expected |-> IF IsEnd(StateSeq[k]) THEN <<>> ELSE ExpectedAt(Table[StateSeq[k]])]],
          rules |-> [k \in 1..Len(RuleSeq) |-> [name |-> RuleSeq[k], kind |-> Rules[RuleSeq[k]].kind, ast |-> Rules[RuleSeq[k]].ast, els |-> Rules[RuleSeq[k]].els]],
          hints |-> [k \in 1..Len(SetToSeq(DOMAIN Hints)) |-> LET r == SetToSeq(DOMAIN Hints)[k] IN
                        [rule |-> r, id |-> Hints[r].id, tok |-> Hints[r].tok, expect |-> Hints[r].expect, skip |-> SetToSeq(Hints[r].skip)]],
          ignored |-> Ignored,
          steps |-> [k \in 1..Len(StateSeq) |-> IF IsEnd(StateSeq[k]) THEN <<>> ELSE
                       LET ks == SetToSeq(Kinds \cup {"#EOF"})  os == <<"S", "E", "N">> IN
                       FlattenSeq([a \in 1..Len(ks) |-> [b \in 1..3 |-> [kind |-> ks[a], oracle |-> os[b], hit |-> FireIndex(StateSeq[k], ks[a], os[b])]]])] ]
ASSUME PrintT(<<"TABLE", ToJson(Dump)>>)

\* ---- sanity of the derivation
Toks1(trs) == [j \in 1..Len(trs) |-> trs[j].tok]
Deterministic == \A f \in States : LET trs == Table[f] IN
   \A a, b \in 1..Len(trs) : (a < b /\ trs[a].tok = trs[b].tok) => trs[a].la # NoHint     \* only a failed look-ahead falls through to a later same-token transition
EofFirstOtherLast == \A f \in States : LET ts == ExpectedAt(Table[f]) IN
   /\ \A j \in 1..Len(ts) : ts[j] = "#EOF" => j = 1
   /\ \A j \in 1..Len(ts) : ts[j] = "#Other" => j = Len(ts)
   /\ ("#Other" \notin {ts[j] : j \in 1..Len(ts)} => {"#Comment", "#Empty"} \subseteq {ts[j] : j \in 1..Len(ts)})
RECURSIVE ApplyStack(_, _)
ApplyStack(stk, prods) == IF prods = <<>> THEN stk ELSE
   LET p == Head(prods) IN
   IF p[1] = "S" THEN ApplyStack(Append(stk, p[2]), Tail(prods))
   ELSE IF p[1] = "E" THEN (IF stk # <<>> /\ stk[Len(stk)] = p[2] THEN ApplyStack(SubSeq(stk, 1, Len(stk) - 1), Tail(prods)) ELSE <<"MISMATCH">>)
   ELSE ApplyStack(stk, Tail(prods))
\* the '!' rules on the grammar path are exactly what start_rule/end_rule leave on the builder's stack; each transition builds exactly once, last
\* (Parser.parse itself pushes GherkinDocument before the first token and pops it after the last)
PathOf(f) == IF f = <<>> THEN <<"GherkinDocument">> ELSE AstPath(f)
StackDiscipline == \A f \in States : \A j \in 1..Len(Table[f]) : LET t == Table[f][j] IN
   /\ ApplyStack(PathOf(f), t.prods) = PathOf(t.target)
   /\ t.prods[Len(t.prods)] = <<"B", "">> /\ \A m \in 1..(Len(t.prods) - 1) : t.prods[m][1] # "B"
Sizes == Cardinality(AllStates) = 65 /\ Cardinality(States) = 64
ASSUME A_Deterministic == Deterministic
ASSUME A_EofFirstOtherLast == EofFirstOtherLast
ASSUME A_StackDiscipline == StackDiscipline
ASSUME A_Sizes == Sizes
=============================================================================
