------------------------------- MODULE ParserL0 -------------------------------
(***************************************************************************)
(* The generated parser at token-kind level, in SMALL steps: one action    *)
(* per thing Parser.parse does between two observable points.              *)
(*                                                                         *)
(*   ReadToken      read_token: the look-ahead queue first, else scanner   *)
(*   TryTransition  the next `if self.match_X(...)` of match_token_at_<st> *)
(*   LaRead         one iteration of the loop in lookahead_<h>             *)
(*   LaEnd          context.token_queue.extend(queue); return match        *)
(*   (Fire)         start_rule/end_rule/build of the chosen transition     *)
(*   (Unexpected)   no transition applies: error, stay in the position     *)
(*                                                                         *)
(* A line is one of 14 intrinsic kinds; how it is READ depends on the      *)
(* position: as itself where expected; a language header is also a         *)
(* comment; anything but end-of-file is free text where #Other is          *)
(* expected.  Table is the table derived from the grammar.                 *)
(*                                                                         *)
(* History variables (vDelivered, vReported, vOps) exist for the           *)
(* properties C18 / C01 and are hidden by the VIEW of the MC instances.    *)
(***************************************************************************)
EXTENDS Grammar

VARIABLES vInput,      \* Seq(kind), ends with "#EOF"
          vNext,       \* scanner position
          vQueue,      \* look-ahead queue: indices into vInput
          vPc,         \* "read" | "try" | "la" | "done"
          vTok,        \* index of the token in hand
          vTry,        \* which transition of the position is being tried
          vLa,         \* running look-ahead: [id, read : Seq(index), ok]
          vSt,         \* grammar position
          vStack,      \* builder's rule stack (rule names)
          vErrs,       \* number of errors reported
          vDelivered, vReported, vOps     \* history
lvars == <<vInput, vNext, vQueue, vPc, vTok, vTry, vLa, vSt, vStack, vErrs, vDelivered, vReported, vOps>>
NoLa == [id |-> NoHint, read |-> <<>>, ok |-> FALSE]

L0Init(input) == /\ vInput = input /\ vNext = 1 /\ vQueue = <<>> /\ vPc = "read" /\ vTok = 0 /\ vTry = 0 /\ vLa = NoLa
                 /\ vSt = <<>> /\ vStack = <<"GherkinDocument">> /\ vErrs = 0 /\ vDelivered = <<>> /\ vReported = <<>> /\ vOps = 0

RECURSIVE ApplyToStack(_, _)
ApplyToStack(stk, prods) == IF prods = <<>> THEN stk ELSE
   LET p == Head(prods) IN
   ApplyToStack(IF p[1] = "S" THEN Append(stk, p[2]) ELSE IF p[1] = "E" THEN SubSeq(stk, 1, Len(stk) - 1) ELSE stk, Tail(prods))

\* read_token
ReadToken == /\ vPc = "read"
             /\ IF vQueue # <<>> THEN vTok' = Head(vQueue) /\ vQueue' = Tail(vQueue) /\ UNCHANGED vNext
                ELSE vTok' = vNext /\ vNext' = vNext + 1 /\ UNCHANGED vQueue
             /\ vPc' = "try" /\ vTry' = 1
             /\ UNCHANGED <<vInput, vLa, vSt, vStack, vErrs, vDelivered, vReported, vOps>>

Fire(t) == /\ vSt' = t.target /\ vStack' = ApplyToStack(vStack, t.prods)
           /\ vDelivered' = Append(vDelivered, vTok)
           /\ vPc' = IF vInput[vTok] = "#EOF" THEN "done" ELSE "read"
           /\ vTry' = 0 /\ vLa' = NoLa
           /\ UNCHANGED <<vInput, vErrs, vReported>>

\* one `if self.match_<tok>(context, token):` (and the `if self.lookahead_<h>` nested in it)
TryTransition ==
   /\ vPc = "try" /\ vTry <= Len(Table[vSt])
   /\ LET t == Table[vSt][vTry] IN
      /\ vOps' = vOps + 1
      /\ IF ~Reads(vInput[vTok], t.tok) THEN vTry' = vTry + 1 /\ UNCHANGED <<vInput, vNext, vQueue, vPc, vTok, vLa, vSt, vStack, vErrs, vDelivered, vReported>>
         ELSE IF t.la = NoHint THEN Fire(t) /\ UNCHANGED <<vNext, vQueue, vTok>>
         ELSE /\ vPc' = "la" /\ vLa' = [id |-> t.la, read |-> <<>>, ok |-> FALSE]
              /\ UNCHANGED <<vInput, vNext, vQueue, vTok, vTry, vSt, vStack, vErrs, vDelivered, vReported>>

\* no transition applies: UnexpectedToken / UnexpectedEOF, the position does not change
Unexpected ==
   /\ vPc = "try" /\ vTry > Len(Table[vSt])
   /\ vErrs' = vErrs + 1 /\ vReported' = Append(vReported, vTok)
   /\ vPc' = IF vInput[vTok] = "#EOF" THEN "done" ELSE "read"
   /\ vTry' = 0
   /\ UNCHANGED <<vInput, vNext, vQueue, vTok, vLa, vSt, vStack, vDelivered, vOps>>

\* the loop goes on while the last token read is a tag / comment (a language header is one) / blank line
LaContinues == IF vLa.read = <<>> THEN TRUE
               ELSE LET k == vInput[vLa.read[Len(vLa.read)]]  h == HintById(vLa.id) IN k # h.expect /\ k \in (h.skip \cup {"#Language"})
\* one iteration of the look-ahead loop: read a token (through read_token!), test it
LaRead ==
   /\ vPc = "la" /\ LaContinues
   /\ LET i == IF vQueue # <<>> THEN Head(vQueue) ELSE vNext
          k == vInput[i]
          h == HintById(vLa.id) IN
      /\ IF vQueue # <<>> THEN vQueue' = Tail(vQueue) /\ UNCHANGED vNext ELSE vNext' = vNext + 1 /\ UNCHANGED vQueue
      /\ vLa' = [vLa EXCEPT !.read = Append(@, i), !.ok = (k = h.expect)]
      /\ vOps' = vOps + (IF k = h.expect THEN 1 ELSE 1 + Cardinality(h.skip))
   /\ UNCHANGED <<vInput, vPc, vTok, vTry, vSt, vStack, vErrs, vDelivered, vReported>>

\* the loop ended (expected kind found, or a kind that is neither expected nor skippable): requeue AT THE BACK and decide
LaEnd ==
   /\ vPc = "la" /\ ~LaContinues
   /\ vQueue' = vQueue \o vLa.read
   /\ IF vLa.ok THEN Fire(Table[vSt][vTry]) /\ UNCHANGED <<vNext, vTok, vOps>>
      ELSE vPc' = "try" /\ vTry' = vTry + 1 /\ vLa' = NoLa /\ UNCHANGED <<vInput, vNext, vTok, vSt, vStack, vErrs, vDelivered, vReported, vOps>>

L0Next == ReadToken \/ TryTransition \/ Unexpected \/ LaRead \/ LaEnd
L0View == <<vInput, vNext, vQueue, vPc, vTok, vTry, vLa, vSt, vStack, vErrs>>

(***************************************************************************)
(* Properties.                                                             *)
(***************************************************************************)
\* C02: the builder's stack is always the '!'-rules on the grammar path
PathRules(f) == IF f = <<>> THEN <<"GherkinDocument">> ELSE AstPath(f)
Inv_StackIsPath == vPc \in {"read", "done"} => vStack = PathRules(vSt)
\* C18: the queue is a contiguous, ordered block of lines right after the token in hand, ending where the scanner stands
IsContig(s) == \A j \in 1..(Len(s) - 1) : s[j] + 1 = s[j + 1]
Inv_Fifo == /\ IsContig(vQueue \o vLa.read) \/ (vQueue # <<>> /\ vLa.read # <<>> /\ IsContig(vLa.read \o vQueue))
            /\ (vQueue # <<>> /\ vLa.read = <<>> => vQueue[Len(vQueue)] + 1 = vNext)
            /\ (vPc = "try" /\ vQueue # <<>> => vQueue[1] = vTok + 1)
\* C18: delivered and reported lines partition the lines consumed, in order
SeqSet(s) == {s[j] : j \in 1..Len(s)}
Inv_Partition == /\ SeqSet(vDelivered) \cap SeqSet(vReported) = {}
                 /\ \A j \in 1..(Len(vDelivered) - 1) : vDelivered[j] < vDelivered[j + 1]
                 /\ \A j \in 1..(Len(vReported) - 1) : vReported[j] < vReported[j + 1]
                 /\ (vPc \in {"read", "done"} => SeqSet(vDelivered) \cup SeqSet(vReported) = 1..(Len(vDelivered) + Len(vReported)))
Inv_Accepted == (vPc = "done" /\ vErrs = 0) => vDelivered = [j \in 1..Len(vInput) |-> j]
\* C01: line-matching operations are linear in the number of lines read (constant computed from the table)
MaxFan == CHOOSE n \in 0..64 : (\A f \in States : Len(Table[f]) <= n) /\ (\E f \in States : Len(Table[f]) = n)
WorkPerLine == MaxFan + 2 * 4
Inv_Linear == vOps <= WorkPerLine * vNext

(***************************************************************************)
(* Action properties (what a single step of the parser may and may not do).*)
(* They are checked on every explored transition ([][A]_lvars).            *)
(***************************************************************************)
PrefixOf(a, b) == Len(a) <= Len(b) /\ SubSeq(b, 1, Len(a)) = a
\* C18: what has been handed to the builder / reported is never taken back, and grows by the token in hand only, one at a time
ActP_AppendOnly == /\ PrefixOf(vDelivered, vDelivered') /\ PrefixOf(vReported, vReported')
                   /\ Len(vDelivered') + Len(vReported') <= Len(vDelivered) + Len(vReported) + 1
                   /\ (Len(vDelivered') > Len(vDelivered) => vDelivered' = Append(vDelivered, vTok))
                   /\ (Len(vReported') > Len(vReported) => vReported' = Append(vReported, vTok))
\* C18 / C01: the scanner never rewinds and never skips; only ReadToken and LaRead consume from it, one line per step
ActP_ScannerForward == /\ vNext' \in {vNext, vNext + 1}
                       /\ (vNext' = vNext + 1 => vPc \in {"read", "la"} /\ vQueue = <<>>)
                       /\ vInput' = vInput
\* C18: while a look-ahead runs nothing reaches the builder, no error is reported and the position stands still;
\*      the lines it read go back to the queue in the order read
ActP_LookAheadPure == (vPc = "la" /\ vPc' = "la") => /\ UNCHANGED <<vSt, vStack, vErrs, vDelivered, vReported, vTok, vTry>>
                                                      /\ PrefixOf(vLa.read, vLa'.read)
ActP_Requeue == (vPc = "la" /\ vPc' # "la") => vQueue' = vQueue \o vLa.read
\* C14: an error leaves the parser where it was (position, stack, queue), so the following lines are judged from the same position
ActP_ErrorStays == (vErrs' # vErrs) => /\ vErrs' = vErrs + 1 /\ UNCHANGED <<vSt, vStack, vQueue, vNext, vDelivered>>
                                       /\ vReported' = Append(vReported, vTok)
\* C02: position and stack change only when a token is delivered
ActP_MoveOnlyOnDelivery == (vSt' # vSt \/ vStack' # vStack) => Len(vDelivered') = Len(vDelivered) + 1
\* C01: "done" is final and is entered only on the end-of-file token
ActP_DoneFinal == /\ (vPc = "done" => vPc' = "done")
                  /\ (vPc # "done" /\ vPc' = "done" => vInput[vTok] = "#EOF")
Prop_AppendOnly == [][ActP_AppendOnly]_lvars
Prop_ScannerForward == [][ActP_ScannerForward]_lvars
Prop_LookAheadPure == [][ActP_LookAheadPure]_lvars
Prop_Requeue == [][ActP_Requeue]_lvars
Prop_ErrorStays == [][ActP_ErrorStays]_lvars
Prop_MoveOnlyOnDelivery == [][ActP_MoveOnlyOnDelivery]_lvars
Prop_DoneFinal == [][ActP_DoneFinal]_lvars
=============================================================================
