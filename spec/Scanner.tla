------------------------------- MODULE Scanner -------------------------------
(***************************************************************************)
(* TokenScanner: from the argument of Parser.parse / TokenScanner(...) to  *)
(* the numbered physical lines the parser reads.                           *)
(*                                                                         *)
(* Two layers.  (1) Which character stream the argument stands for:        *)
(* DOCUMENTED -- the argument IS the source text (C01: "every source       *)
(* text");  AS IMPLEMENTED -- an argument that names an existing path is   *)
(* opened as a file (the recorded C01 finding, a named deviation like      *)
(* Lexer!TagLineAsImplemented), and a file is read with universal          *)
(* newlines (CR LF and lone CR become LF) whereas a string is read as it   *)
(* is (lines end at LF only).  (2) The reading machine: registers          *)
(* (text, position, line_number), one action per call of read().           *)
(***************************************************************************)
EXTENDS Text, Integers

Universal(t) == ReplAll(ReplAll(t, <<CR, LF>>, <<LF>>), <<CR>>, <<LF>>)
CrOnlyInPairs(t) == \A j \in 1..Len(t) : t[j] = CR => (j < Len(t) /\ t[j + 1] = LF)
CrLfToLf(t) == ReplAll(t, <<CR, LF>>, <<LF>>)

Dir == << -1 >>                            \* what a file system maps a directory name to (file contents are Seq(Nat); -1 is no code point)
\* fs: a function from names (Seq(Nat)) to contents or Dir
StreamDocumented(arg, fs) == [ok |-> TRUE, text |-> arg]
StreamOfFile(content) == [ok |-> TRUE, text |-> Universal(content)]
StreamImplemented(arg, fs) == IF arg \in DOMAIN fs THEN (IF fs[arg] = Dir THEN [ok |-> FALSE, text |-> <<>>] ELSE StreamOfFile(fs[arg]))
                              ELSE [ok |-> TRUE, text |-> arg]
\* the recorded deviation, exactly: the two differ only for arguments that name something existing
InKnownFindingClass(arg, fs) == arg \in DOMAIN fs

\* ---- the reading machine ----
\* one call of read() in state (text, pos, no): the next line (up to and including the next LF, or to the end of the text), numbered no + 1;
\* at the end of the text the end-of-file token -- numbered too, every further call counts on
RECURSIVE LineEnd(_, _)
LineEnd(text, k) == IF k > Len(text) THEN Len(text) ELSE IF text[k] = LF THEN k ELSE LineEnd(text, k + 1)
ReadResult(text, pos, no) == IF pos > Len(text) THEN [eof |-> TRUE, line |-> <<>>, no |-> no + 1, pos |-> pos]
                             ELSE LET e == LineEnd(text, pos) IN [eof |-> FALSE, line |-> SubSeq(text, pos, e), no |-> no + 1, pos |-> e + 1]

\* what a complete reading must amount to (declarative): the lines of the text, numbered from 1, then end of file numbered on
Expected(text, extra) == LET ls == SplitLines(text) IN
   [k \in 1..Len(ls) |-> [eof |-> FALSE, line |-> ls[k], no |-> k]] \o [k \in 1..extra |-> [eof |-> TRUE, line |-> <<>>, no |-> Len(ls) + k]]
=============================================================================
