--------------------------------- MODULE Props ---------------------------------
(***************************************************************************)
(* The listed properties as predicates over OBSERVABLES only:              *)
(*    lines   : the source, Seq(line as code points)                       *)
(*    toks    : the tokens delivered to the builder, in order              *)
(*    doc     : the AST (uniform records, see AstBuilder)                  *)
(*    pickles : the compiler's output                                      *)
(*    errs    : the error list                                             *)
(* Nothing here mentions the parser position, the builder stack or any     *)
(* other internal of the specification.  The same predicates are therefore *)
(* evaluated (a) by TLC on the specification's own results in the model-   *)
(* checking instances -- showing the specification has the property -- and *)
(* (b) on the results RECORDED from the implementation in the trace        *)
(* specifications -- showing each observed execution has it.               *)
(* Each predicate stands next to the sentence of the property it encodes.  *)
(***************************************************************************)
EXTENDS Gherkin

\* ------------------------------------------------------------------------------------------- AST traversal
Feat(doc) == doc.feature[1]
HasFeat(doc) == doc.feature # <<>>
SeqToSet(s) == {s[j] : j \in 1..Len(s)}
IsStrictInc(s) == \A j \in 1..(Len(s) - 1) : s[j] < s[j + 1]
NoDup(s) == \A a, b \in 1..Len(s) : a # b => s[a] # s[b]

\* All element lists of a document, computed ONCE (TLCEval forces the lazy function constructors into plain tuples;
\* without it TLC re-derives a list at every application and the predicates below become exponential).
Index(doc) ==
   LET feats == IF HasFeat(doc) THEN <<Feat(doc)>> ELSE <<>>
       rules == TLCEval(IF HasFeat(doc) THEN SelectSeq(Feat(doc).kids, LAMBDA x : x.t = "Rule") ELSE <<>>)
       conts == TLCEval(feats \o rules)
       bgs   == TLCEval(FlattenSeq([c \in 1..Len(conts) |-> SelectSeq(conts[c].kids, LAMBDA x : x.t = "Background")]))
       sus   == TLCEval(IF HasFeat(doc) THEN ScenariosOf(Feat(doc)) ELSE <<>>)
       scs   == TLCEval([j \in 1..Len(sus) |-> sus[j].sc])
       exs   == TLCEval(FlattenSeq([j \in 1..Len(scs) |-> scs[j].examples]))
       steps == TLCEval(FlattenSeq([j \in 1..Len(bgs) |-> bgs[j].steps]) \o FlattenSeq([j \in 1..Len(scs) |-> scs[j].steps]))
       args  == TLCEval(FlattenSeq([j \in 1..Len(steps) |-> steps[j].arg]))
       dts   == TLCEval(SelectSeq(args, LAMBDA a : a.t = "DataTable"))
       dss   == TLCEval(SelectSeq(args, LAMBDA a : a.t = "DocString"))
       tabs  == TLCEval([j \in 1..Len(dts) |-> dts[j].rows] \o SelectSeq([j \in 1..Len(exs) |-> exs[j].header \o exs[j].body], LAMBDA t : t # <<>>))
       rows  == TLCEval(FlattenSeq(tabs))
       owners == TLCEval(feats \o rules \o scs \o exs)
       tags  == TLCEval(FlattenSeq([j \in 1..Len(owners) |-> owners[j].tags]))
   IN [feats |-> feats, rules |-> rules, conts |-> conts, bgs |-> bgs, scs |-> scs, exs |-> exs, steps |-> steps, dts |-> dts, dss |-> dss,
       tabs |-> tabs, rows |-> rows, owners |-> owners, tags |-> tags,
       titled |-> TLCEval(feats \o rules \o bgs \o scs \o exs), kwnodes |-> TLCEval(feats \o rules \o bgs \o scs \o exs \o steps)]
ExRows(ex) == ex.header \o ex.body
LineOf(lines, n) == lines[n.line]
LinesOf(ns) == [j \in 1..Len(ns) |-> ns[j].line]
TokLinesOfType(toks, types) == LinesOf(SelectSeq(toks, LAMBDA t : t.type \in types))

\* ------------------------------------------------------------------------------------------- C03
(* "every feature, rule, background, scenario, examples block, step, data table row ..., doc string, tag and comment of
   the source appears exactly once": the lines the AST mentions for each kind are exactly the lines the token stream has
   of that kind, each once. *)
P_C03_Once(toks, doc, ix) ==
   /\ LinesOf(ix.feats) = TokLinesOfType(toks, {"FeatureLine"})
   /\ SeqToSet(LinesOf(ix.rules)) = SeqToSet(TokLinesOfType(toks, {"RuleLine"})) /\ NoDup(LinesOf(ix.rules))
   /\ SeqToSet(LinesOf(ix.bgs)) = SeqToSet(TokLinesOfType(toks, {"BackgroundLine"})) /\ NoDup(LinesOf(ix.bgs))
   /\ SeqToSet(LinesOf(ix.scs)) = SeqToSet(TokLinesOfType(toks, {"ScenarioLine"})) /\ NoDup(LinesOf(ix.scs))
   /\ SeqToSet(LinesOf(ix.exs)) = SeqToSet(TokLinesOfType(toks, {"ExamplesLine"})) /\ NoDup(LinesOf(ix.exs))
   /\ SeqToSet(LinesOf(ix.steps)) = SeqToSet(TokLinesOfType(toks, {"StepLine"})) /\ NoDup(LinesOf(ix.steps))
   /\ SeqToSet(LinesOf(ix.rows)) = SeqToSet(TokLinesOfType(toks, {"TableRow"})) /\ NoDup(LinesOf(ix.rows))
   /\ LinesOf(doc.comments) = TokLinesOfType(toks, {"Comment"})
   \* tags: the tags of a tag line, all of them and in order, once
   /\ LET tagToks == SelectSeq(toks, LAMBDA t : t.type = "TagLine")
          expected == FlattenSeq([j \in 1..Len(tagToks) |-> [m \in 1..Len(tagToks[j].items) |-> <<tagToks[j].line, tagToks[j].items[m].col, tagToks[j].items[m].text>>]])
          got == [j \in 1..Len(ix.tags) |-> <<ix.tags[j].line, ix.tags[j].col, ix.tags[j].name>>]
      IN SeqToSet(got) = SeqToSet(expected) /\ Len(got) = Len(expected)
   \* doc strings: one per opening delimiter (delimiter tokens alternate open / close)
   /\ LET seps == TokLinesOfType(toks, {"DocStringSeparator"})
          opens == {seps[j] : j \in {x \in 1..Len(seps) : x % 2 = 1}}
      IN SeqToSet(LinesOf(ix.dss)) = opens /\ NoDup(LinesOf(ix.dss))

(* "under the right parent and in source order": walking the AST in document order meets strictly increasing lines, and
   every child lies between its parent's line and the parent's next sibling. *)
RECURSIVE WalkScenario(_), WalkSteps(_)
WalkSteps(steps) == FlattenSeq([j \in 1..Len(steps) |-> <<steps[j].line>> \o
                      (IF steps[j].arg = <<>> THEN <<>> ELSE IF steps[j].arg[1].t = "DataTable" THEN LinesOf(steps[j].arg[1].rows) ELSE <<steps[j].arg[1].line>>)])
WalkScenario(sc) == <<sc.line>> \o WalkSteps(sc.steps) \o FlattenSeq([e \in 1..Len(sc.examples) |-> <<sc.examples[e].line>> \o LinesOf(ExRows(sc.examples[e]))])
WalkKid(kid) == IF kid.t = "Background" THEN <<kid.line>> \o WalkSteps(kid.steps)
                ELSE IF kid.t = "Scenario" THEN WalkScenario(kid)
                ELSE <<kid.line>> \o FlattenSeq([j \in 1..Len(kid.kids) |-> IF kid.kids[j].t = "Background" THEN <<kid.kids[j].line>> \o WalkSteps(kid.kids[j].steps) ELSE WalkScenario(kid.kids[j])])
Walk(doc) == IF HasFeat(doc) THEN <<Feat(doc).line>> \o FlattenSeq([j \in 1..Len(Feat(doc).kids) |-> WalkKid(Feat(doc).kids[j])]) ELSE <<>>
P_C03_Order(doc, ix) ==
   /\ IsStrictInc(Walk(doc))
   /\ IsStrictInc(LinesOf(doc.comments))
   \* grammar-imposed order of children: background first, then scenarios, then rules
   /\ \A c \in SeqToSet(ix.conts) : \A a, b \in 1..Len(c.kids) :
         a < b => /\ c.kids[b].t # "Background"
                  /\ (c.kids[a].t = "Rule" => c.kids[b].t = "Rule")
   \* tags stand before their owner, on lines after the previous element
   /\ \A o \in SeqToSet(ix.owners) : \A j \in 1..Len(o.tags) : o.tags[j].line < o.line
   /\ \A o \in SeqToSet(ix.owners) : \A a, b \in 1..Len(o.tags) : a < b =>
         (o.tags[a].line < o.tags[b].line \/ (o.tags[a].line = o.tags[b].line /\ o.tags[a].col < o.tags[b].col))

(* "Keywords are reported as written, names and step text are the remainder of the line with surrounding whitespace
   removed". *)
P_C03_Text(lines, doc, ix) ==
   /\ \A n \in SeqToSet(ix.titled) : LET t == LTrim(LineOf(lines, n)) IN
         StartsWith(t, n.kw \o <<COLON>>) /\ n.name = Trim(From(t, Len(n.kw) + 2))
   /\ \A s \in SeqToSet(ix.steps) : LET t == LTrim(LineOf(lines, s)) IN
         StartsWith(t, s.kw) /\ s.text = Trim(From(t, Len(s.kw) + 1))
   /\ \A c \in SeqToSet(doc.comments) : c.text = StripEol(LineOf(lines, c))

(* "a description starts at the first comment or text line after the keyword line and consists of the free-text lines from
   there up to the next line the grammar reads as something else, verbatim, with comment lines left out and trailing blank
   lines dropped".  Read off the token stream: after the keyword token skip Empty tokens; the maximal run of Other/Comment
   tokens that follows is the description block. *)
RECURSIVE SkipEmpty(_, _), RunEnd(_, _)
SkipEmpty(toks, k) == IF k <= Len(toks) /\ toks[k].type = "Empty" THEN SkipEmpty(toks, k + 1) ELSE k
RunEnd(toks, k) == IF k <= Len(toks) /\ toks[k].type \in {"Other", "Comment"} THEN RunEnd(toks, k + 1) ELSE k
TokIndexAtLine(toks, ln) == IF \E k \in 1..Len(toks) : toks[k].line = ln THEN CHOOSE k \in 1..Len(toks) : toks[k].line = ln ELSE 0
RECURSIVE DropBlankTail(_)
DropBlankTail(ss) == IF ss # <<>> /\ AllWs(ss[Len(ss)]) THEN DropBlankTail(SubSeq(ss, 1, Len(ss) - 1)) ELSE ss
ExpectedDesc(lines, toks, n) ==
   LET k == TokIndexAtLine(toks, n.line)
       a == SkipEmpty(toks, k + 1)
       b == RunEnd(toks, a)
       others == SelectSeq(SubSeq(toks, a, b - 1), LAMBDA t : t.type = "Other")
   IN JoinLF(DropBlankTail([j \in 1..Len(others) |-> StripEol(lines[others[j].line])]))
P_C03_Desc(lines, toks, doc, ix) == \A n \in SeqToSet(ix.titled) : n.desc = ExpectedDesc(lines, toks, n)

(* "Nothing that is not in the source appears in the AST": every line the AST mentions exists. *)
P_C03_Within(lines, doc, ix) == \A ln \in SeqToSet(Walk(doc)) \cup SeqToSet(LinesOf(ix.tags)) \cup SeqToSet(LinesOf(doc.comments)) : ln \in 1..Len(lines)

\* ------------------------------------------------------------------------------------------- C02
(* "the nesting ... reported to the AST builder is a derivation of that grammar": the flat word of builder calls
   S:rule / B:token / E:rule of an accepted document belongs to the language the grammar assigns to GherkinDocument when
   every '!' rule is bracketed by S/E, rules without '!' are inlined, and comment / blank tokens may additionally stand
   anywhere.  Decided by brute force on the word (sets of reachable positions), not by the parser table. *)
EventWord(toks, events) == <<<<"S", "GherkinDocument">>>> \o
   FlattenSeq([k \in 1..Len(events) |-> [m \in 1..Len(events[k]) |-> IF events[k][m][1] = "B" THEN <<"B", "#" \o toks[k].type>> ELSE events[k][m]]])
   \o <<<<"E", "GherkinDocument">>>>
IgnoredB == {<<"B", "#Comment">>, <<"B", "#Empty">>}
\* "comment / blank tokens may stand anywhere": they are removed from the word, and the grammar's own #Comment / #Empty symbols match nothing
\* (a '+' of symbols that may match nothing may then match nothing too: a description made of comments only)
RECURSIVE EndsSym(_, _, _), EndsEls(_, _, _, _), EndsAlt(_, _, _, _), EndsMany(_, _, _)
\* positions after one instance of symbol sym starting at position j of word w
EndsSym(w, sym, j) ==
   IF sym \in {"#Comment", "#Empty"} THEN {j}
   ELSE IF j > Len(w) THEN {}
   ELSE IF IsTok(sym) THEN (IF w[j] = <<"B", sym>> THEN {j + 1} ELSE {})
   ELSE IF Rules[sym].ast THEN
        (IF w[j] # <<"S", sym>> THEN {}
         ELSE {e + 1 : e \in {x \in (IF Rules[sym].kind = "seq" THEN EndsEls(w, Rules[sym].els, 1, j + 1) ELSE EndsAlt(w, Rules[sym].els, 1, j + 1)) :
                                   x <= Len(w) /\ w[x] = <<"E", sym>>}})
   ELSE IF Rules[sym].kind = "seq" THEN EndsEls(w, Rules[sym].els, 1, j) ELSE EndsAlt(w, Rules[sym].els, 1, j)
EndsAlt(w, els, i, j) == IF i > Len(els) THEN {} ELSE EndsSym(w, els[i].s, j) \cup EndsAlt(w, els, i + 1, j)
\* one or more instances of sym from j (only instances that consume something are iterated)
EndsMany(w, sym, j) == LET one == EndsSym(w, sym, j) IN one \cup UNION {EndsMany(w, sym, e) : e \in {x \in one : x > j}}
\* positions after matching els[i..] from j
EndsEls(w, els, i, j) ==
   IF i > Len(els) THEN {j}
   ELSE LET e == els[i]
            many == IF Rep(e.m) THEN EndsMany(w, e.s, j) ELSE EndsSym(w, e.s, j)
        IN UNION {EndsEls(w, els, i + 1, x) : x \in many} \cup (IF Opt(e.m) THEN EndsEls(w, els, i + 1, j) ELSE {})
P_C02_Derivation(toks, events) == LET w == SelectSeq(EventWord(toks, events), LAMBDA x : x \notin IgnoredB) IN (Len(w) + 1) \in EndsSym(w, "GherkinDocument", 1)
(* "with each tag line attached to the Examples, Scenario or Rule that follows it": no other element stands between a tag
   and its owner *)
P_C02_TagOwner(doc, ix) == \A o \in SeqToSet(ix.owners) : \A j \in 1..Len(o.tags) : ~\E ln \in SeqToSet(Walk(doc)) : o.tags[j].line < ln /\ ln < o.line

\* ------------------------------------------------------------------------------------------- C04
(* "Reading the source at that position gives back the element's keyword, tag name, or raw cell text"; the column is that
   of the first non-blank character of the line for keyword lines, steps, rows and delimiters. *)
At(lines, n) == From(lines[n.line], n.col)
RECURSIVE NextUnescPipe(_, _)
NextUnescPipe(s, k) == IF k > Len(s) THEN k ELSE IF s[k] = BSL THEN NextUnescPipe(s, k + 2) ELSE IF s[k] = PIPE THEN k ELSE NextUnescPipe(s, k + 1)
P_C04_ReadBack(lines, doc, ix) ==
   /\ \A n \in SeqToSet(ix.kwnodes) : n.line \in 1..Len(lines) /\ n.col = Indent(lines[n.line]) + 1 /\ StartsWith(At(lines, n), n.kw)
   /\ \A t \in SeqToSet(ix.tags) : t.line \in 1..Len(lines) /\ t.col >= 1 /\ StartsWith(At(lines, t), t.name) /\ t.name # <<>> /\ t.name[1] = AT
   /\ \A r \in SeqToSet(ix.rows) : r.line \in 1..Len(lines) /\ r.col = Indent(lines[r.line]) + 1 /\ lines[r.line][r.col] = PIPE
   /\ \A r \in SeqToSet(ix.rows) : \A c \in 1..Len(r.cells) :
         LET cell == r.cells[c]  l == RTrim(lines[r.line])  stop == NextUnescPipe(l, cell.col) IN
         /\ cell.col > r.col /\ cell.col <= Len(l)
         /\ stop <= Len(l)                                                    \* the cell is closed by a pipe
         /\ TrimBlanks(Unescape(SubSeq(l, cell.col, stop - 1))) = cell.value  \* raw text at the column reads back as the value
         /\ (cell.value # <<>> => ~IsBlankNoLf(l[cell.col]))                  \* ... starting at its first non-blank character
         /\ (cell.value = <<>> => l[cell.col] = PIPE)                         \* the closing pipe for an empty cell
   /\ \A d \in SeqToSet(ix.dss) : d.line \in 1..Len(lines) /\ d.col = Indent(lines[d.line]) + 1 /\ StartsWith(At(lines, d), d.delim)
   /\ \A c \in SeqToSet(doc.comments) : c.col = 1 /\ c.line \in 1..Len(lines)
(* error locations: within the document (end of file: one line past the last), message position = location *)
P_C04_ErrLoc(lines, errs) == \A j \in 1..Len(errs) : LET e == errs[j] IN
   /\ e.line \in 1..(Len(lines) + 1)
   /\ (e.kind # "eof" => e.line <= Len(lines))
   /\ (e.kind = "eof" <=> e.line = Len(lines) + 1)
   /\ (e.kind = "eof" => e.col = 0)
   /\ (e.kind \in {"unexpected", "lang", "ragged"} => e.col = Indent(lines[e.line]) + 1)
   /\ (e.kind = "tag" => e.col > Indent(lines[e.line]) /\ lines[e.line][e.col] = AT)
   /\ (e.kind = "unexpected" => e.got = Trim(lines[e.line]))

\* ------------------------------------------------------------------------------------------- C12
(* "cells are the texts between consecutive unescaped '|' ... blanks (not line feeds) around the result are removed";
   "rows differ in cell count is rejected": an accepted table is rectangular. *)
P_C12_Cells(lines, doc, ix) == \A r \in SeqToSet(ix.rows) :
   LET d == CellsDecl(lines[r.line]) IN
   /\ Len(r.cells) = Len(d)
   /\ \A c \in 1..Len(d) : r.cells[c].value = d[c].text /\ r.cells[c].col = d[c].col
P_C12_Rect(doc, ix) == \A t \in SeqToSet(ix.tabs) : \A a, b \in 1..Len(t) : Len(t[a].cells) = Len(t[b].cells)

\* ------------------------------------------------------------------------------------------- C13
(* "Between an opening delimiter and the next line that starts with the same delimiter no line is interpreted as Gherkin;
   content lines are reported verbatim, minus the opening delimiter's indentation (a less-indented line loses all of its
   own), with the escaped form of the active delimiter turned back; the text after the opening delimiter is the media
   type, absent when empty." *)
RECURSIVE CloseLine(_, _, _)
CloseLine(lines, k, d) == IF k > Len(lines) THEN k ELSE IF StartsWith(LTrim(lines[k]), d) THEN k ELSE CloseLine(lines, k + 1, d)
ContentLine(l, ind, d) == LET body == IF Indent(l) >= ind THEN From(l, ind + 1) ELSE LTrim(l) IN StripEol(ReplAll(body, Esc(d), d))
P_C13_DocStrings(lines, toks, doc, ix) == \A d \in SeqToSet(ix.dss) :
   LET open == lines[d.line]
       close == CloseLine(lines, d.line + 1, d.delim)
       ind == Indent(open)
       rest == Trim(From(LTrim(open), 4))
   IN /\ d.delim \in {Q3, B3}
      /\ close <= Len(lines)                                                      \* accepted => it is closed
      /\ d.content = JoinLF([k \in 1..(close - d.line - 1) |-> ContentLine(lines[d.line + k], ind, d.delim)])
      /\ d.media = (IF rest = <<>> THEN <<>> ELSE <<rest>>)
      \* opaque: every line strictly inside was delivered as free text, the closing line as a delimiter
      /\ \A t \in SeqToSet(toks) : (t.line > d.line /\ t.line < close => t.type = "Other") /\ (t.line = close => t.type = "DocStringSeparator")

\* ------------------------------------------------------------------------------------------- C05 (per document part)
(* "the AST reports the keyword exactly as listed (the first listed step keyword that prefixes the line ...), the feature
   reports the dialect in force, steps get the keyword type of the keyword's category" *)
P_C05_Doc(lines, doc, dialectKey, ix) == HasFeat(doc) =>
   LET D == Dialects[dialectKey] IN
   /\ Feat(doc).lang = LangNames[dialectKey]
   /\ FirstKw(LTrim(LineOf(lines, Feat(doc))), D.feature, <<COLON>>) = <<Feat(doc).kw>>
   /\ \A n \in SeqToSet(ix.rules) : FirstKw(LTrim(LineOf(lines, n)), D.rule, <<COLON>>) = <<n.kw>>
   /\ \A n \in SeqToSet(ix.bgs) : FirstKw(LTrim(LineOf(lines, n)), D.background, <<COLON>>) = <<n.kw>>
   /\ \A n \in SeqToSet(ix.exs) : FirstKw(LTrim(LineOf(lines, n)), D.examples, <<COLON>>) = <<n.kw>>
   /\ \A n \in SeqToSet(ix.scs) : LET a == FirstKw(LTrim(LineOf(lines, n)), D.scenario, <<COLON>>) IN
         (IF a # <<>> THEN a ELSE FirstKw(LTrim(LineOf(lines, n)), D.scenarioOutline, <<COLON>>)) = <<n.kw>>
   /\ \A s \in SeqToSet(ix.steps) : FirstKw(LTrim(LineOf(lines, s)), StepKws(D), <<>>) = <<s.kw>> /\ s.kwt = KwType(D, s.kw)
\* the dialect in force: the default unless a language header stands before any tag or feature line
RECURSIVE HeaderDialect(_, _, _)
HeaderDialect(lines, k, default) ==
   IF k > Len(lines) THEN default
   ELSE LET nm == LangName(lines[k])  hits == {d \in DOMAIN LangNames : LangNames[d] = nm} IN
        IF nm # <<>> /\ hits # {} THEN CHOOSE x \in hits : TRUE
        ELSE IF Empty(lines[k]).ok \/ Comment(lines[k]).ok THEN HeaderDialect(lines, k + 1, default)
        ELSE default
DialectInForce(lines, default) == HeaderDialect(lines, 1, default)

\* ------------------------------------------------------------------------------------------- C06 .. C11 (compiler)
\* the expected pickles (without ids) of a document, computed once
EPs(doc, uri) == LET us == Units(doc) IN TLCEval([j \in 1..Len(us) |-> LET e == ExpectedPickle(doc, uri, us[j]) IN [e EXCEPT !.steps = TLCEval(e.steps)]])
(* C06: one pickle per scenario without examples and per body row of each examples table with a header, in document order,
   each with uri, language, (interpolated) name and the ids of scenario and row *)
P_C06(pickles, eps) ==
   /\ Len(pickles) = Len(eps)
   /\ \A j \in 1..Len(eps) : /\ pickles[j].astNodeIds = eps[j].astNodeIds /\ pickles[j].uri = eps[j].uri
                              /\ pickles[j].language = eps[j].language /\ pickles[j].name = eps[j].name
(* C07: steps = feature background, rule background, own steps; none for a step-less scenario; arguments carried *)
P_C07(pickles, eps) ==
   Len(pickles) = Len(eps) /\ \A j \in 1..Len(eps) :
      /\ Len(pickles[j].steps) = Len(eps[j].steps)
      /\ \A k \in 1..Len(eps[j].steps) : pickles[j].steps[k].astNodeIds = eps[j].steps[k].astNodeIds /\ pickles[j].steps[k].arg = eps[j].steps[k].arg
(* C08: tags = feature, rule, scenario, examples tags in order, repetitions kept, each with name and AST tag id *)
P_C08(pickles, eps) == Len(pickles) = Len(eps) /\ \A j \in 1..Len(eps) : pickles[j].tags = eps[j].tags
(* C09: placeholders replaced in name, step text, cells, doc string content and media type; not in background steps *)
P_C09(pickles, eps) ==
   Len(pickles) = Len(eps) /\ \A j \in 1..Len(eps) :
      /\ pickles[j].name = eps[j].name
      /\ Len(pickles[j].steps) = Len(eps[j].steps)
      /\ \A k \in 1..Len(eps[j].steps) : pickles[j].steps[k].text = eps[j].steps[k].text /\ pickles[j].steps[k].arg = eps[j].steps[k].arg
(* C10: every pickle step has a definite type derived from its keyword *)
StepTypes == {"Unknown", "Context", "Action", "Outcome"}
P_C10(pickles, eps) ==
   Len(pickles) = Len(eps) /\ \A j \in 1..Len(eps) :
      /\ Len(pickles[j].steps) = Len(eps[j].steps)
      /\ \A k \in 1..Len(eps[j].steps) : pickles[j].steps[k].type \in StepTypes /\ pickles[j].steps[k].type = eps[j].steps[k].type
(* C11: ids unique and dense from nid0, in the canonical order; references resolve to nodes of the right kind *)
RowsOfStep(s) == IF s.arg # <<>> /\ s.arg[1].t = "DataTable" THEN s.arg[1].rows ELSE <<>>
IdsSteps(steps) == FlattenSeq([j \in 1..Len(steps) |-> [m \in 1..Len(RowsOfStep(steps[j])) |-> RowsOfStep(steps[j])[m].id] \o <<steps[j].id>>])
IdsTags(o) == [j \in 1..Len(o.tags) |-> o.tags[j].id]
IdsExamples(ex) == [m \in 1..Len(ExRows(ex)) |-> ExRows(ex)[m].id] \o IdsTags(ex) \o <<ex.id>>
IdsScenario(sc) == IdsSteps(sc.steps) \o FlattenSeq([e \in 1..Len(sc.examples) |-> IdsExamples(sc.examples[e])]) \o IdsTags(sc) \o <<sc.id>>
IdsBackground(b) == IdsSteps(b.steps) \o <<b.id>>
IdsKid(kid) == IF kid.t = "Background" THEN IdsBackground(kid) ELSE IF kid.t = "Scenario" THEN IdsScenario(kid)
               ELSE FlattenSeq([j \in 1..Len(kid.kids) |-> IF kid.kids[j].t = "Background" THEN IdsBackground(kid.kids[j]) ELSE IdsScenario(kid.kids[j])]) \o IdsTags(kid) \o <<kid.id>>
CanonicalAstIds(doc) == IF HasFeat(doc) THEN FlattenSeq([j \in 1..Len(Feat(doc).kids) |-> IdsKid(Feat(doc).kids[j])]) \o IdsTags(Feat(doc)) ELSE <<>>
CanonicalPickleIds(pickles) == FlattenSeq([j \in 1..Len(pickles) |-> [k \in 1..Len(pickles[j].steps) |-> pickles[j].steps[k].id] \o <<pickles[j].id>>])
P_C11_Canonical(doc, pickles, nid0) == LET ids == CanonicalAstIds(doc) \o CanonicalPickleIds(pickles) IN ids = [j \in 1..Len(ids) |-> nid0 + j - 1]
IdSet(ns) == {ns[j].id : j \in 1..Len(ns)}
P_C11_Refs(doc, pickles, ix) == \A j \in 1..Len(pickles) : LET p == pickles[j] IN
   /\ Len(p.astNodeIds) \in {1, 2} /\ p.astNodeIds[1] \in IdSet(ix.scs)
   /\ (Len(p.astNodeIds) = 2 => p.astNodeIds[2] \in IdSet(FlattenSeq([e \in 1..Len(ix.exs) |-> ix.exs[e].body])))
   /\ \A k \in 1..Len(p.steps) : /\ p.steps[k].astNodeIds[1] \in IdSet(ix.steps)
                                 /\ (Len(p.steps[k].astNodeIds) = 2 => p.steps[k].astNodeIds[2] = p.astNodeIds[2])
   /\ \A k \in 1..Len(p.tags) : p.tags[k].astNodeId \in IdSet(ix.tags)

\* ------------------------------------------------------------------------------------------- C14 / C01 (outcome)
ErrKinds == {"unexpected", "eof", "tag", "lang", "ragged"}
P_C01_Outcome(errs, cap) == Len(errs) <= cap /\ \A j \in 1..Len(errs) : errs[j].kind \in ErrKinds /\ errs[j].line >= 1
P_C14_Once(errs) == NoDup(errs)
(* "A document is rejected exactly when some line (or the end of file) cannot continue a sentence of the grammar, a tag line outside a doc
   string contains a tag with whitespace, a language header names an unknown dialect, or a table is ragged."  Decided WITHOUT the parser
   table: the kinds of the lines (Gherkin!KindOf in the matcher state reached there) are run through the grammar's NFA; the faults are read
   off the lines and the delivered tokens.  run = Gherkin!RunAll(lines, ...) supplies only the matcher states. *)
KindsOfRun(lines, run) == [j \in 1..Len(lines) |-> IF j <= Len(run.sts) THEN KindOf(lines[j], run.sts[j].ms) ELSE "#Other"]
TagFault(lines, run) == \E j \in 1..Min({Len(lines), Len(run.sts)}) : run.sts[j].ms.sep = <<>> /\ "exc" \in DOMAIN TagLine(lines[j])
LangFault(lines, run) == \E j \in 1..Min({Len(lines), Len(run.sts)}) : run.sts[j].st = <<>> /\ LangName(lines[j]) # <<>> /\ ~Known(LangName(lines[j]))
\* tables read off the delivered tokens: maximal runs of TableRow tokens (comments and blank lines may stand between rows)
RECURSIVE RaggedFrom(_, _, _)
RaggedFrom(toks, k, width) == IF k > Len(toks) THEN FALSE
   ELSE IF toks[k].type = "TableRow" THEN (IF width >= 0 /\ Len(toks[k].items) # width THEN TRUE ELSE RaggedFrom(toks, k + 1, Len(toks[k].items)))
   ELSE IF toks[k].type \in {"Comment", "Empty"} THEN RaggedFrom(toks, k + 1, width)
   ELSE RaggedFrom(toks, k + 1, 0 - 1)
RaggedFault(toks) == RaggedFrom(toks, 1, 0 - 1)
P_C14_Iff(lines, run, rejected) ==
   rejected <=> (~IsSentence(KindsOfRun(lines, run)) \/ TagFault(lines, run) \/ LangFault(lines, run) \/ RaggedFault(run.toks))

\* ------------------------------------------------------------------------------------------- C18
(* "the AST builder receives exactly one token per physical line, in source order and with that line's number, followed by
   exactly one end-of-file token" *)
P_C18_Accepted(lines, toks) == /\ Len(toks) = Len(lines) + 1
                               /\ \A j \in 1..Len(toks) : toks[j].line = j
                               /\ toks[Len(toks)].type = "EOF" /\ \A j \in 1..Len(lines) : toks[j].type # "EOF"
(* rejected: every line is delivered or reported as unexpected, never both, never neither, up to the end of the parse *)
P_C18_Partition(lines, toks, errs, cap) ==
   LET dl == LinesOf(toks)  rl == LinesOf(SelectSeq(errs, LAMBDA e : e.kind \in {"unexpected", "eof"})) IN
   /\ IsStrictInc(dl) /\ NoDup(rl)
   /\ SeqToSet(dl) \cap SeqToSet(rl) = {}
   /\ (Len(errs) < cap => SeqToSet(dl) \cup SeqToSet(rl) = 1..(Len(lines) + 1))
=============================================================================
