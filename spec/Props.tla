--------------------------------- MODULE Props ---------------------------------
(***************************************************************************)
(* The listed properties, stated over the specification's state            *)
(* (vLines, vLine, vPs), each next to the sentence it formalises.          *)
(* They are checked by TLC on every model-checking instance that extends   *)
(* this module and, in the trace specifications, on every state of every   *)
(* recorded execution of the implementation.                               *)
(***************************************************************************)
EXTENDS Gherkin
=============================================================================
