-------------------------------- MODULE Lexer --------------------------------
(***************************************************************************)
(* TokenScanner + GherkinLine + TokenMatcher at code-point level.          *)
(*                                                                         *)
(* A line is a Seq(Nat) including its line feed (the last line may lack    *)
(* it).  The matcher state is the record                                   *)
(*     ms = [dia  : dialect in force (key of the dialect table),           *)
(*           sep  : the open doc string delimiter, <<>> when none,         *)
(*           ind  : indentation of the opening delimiter (to be removed)]  *)
(* Match(tok, l, ms, D) is one call of TokenMatcher.match_<tok> on line l  *)
(* with dialect record D = Dialects[ms.dia]: it yields                     *)
(*   [ok |-> FALSE]                      the line is not such a token,     *)
(*   [ok |-> FALSE, exc |-> .., col]     the matcher raised (tag fault),   *)
(*   [ok |-> TRUE, type, col, kw, kwt, text, notext, items (, ms)]         *)
(*                                       the token fields the matcher sets *)
(*                                       and, if it changes, the new state.*)
(* `notext` = 1 encodes matched_text = None (JSON null cannot be read by   *)
(* TLC).  The language header is matched by LangName; switching dialect    *)
(* needs the dialect table and is done by the caller (Gherkin.tla).        *)
(***************************************************************************)
EXTENDS TableCells

NoTok == [ok |-> FALSE]
Tok(type, col, kw, kwt, text, notext, items) ==
   [ok |-> TRUE, type |-> type, col |-> col, kw |-> kw, kwt |-> kwt, text |-> text, notext |-> notext, items |-> items]

COLON == 58
AT == 64
HASH == 35

\* ---------------------------------------------------------------- keyword lines
\* first keyword of the list (in list order) such that the left-trimmed line starts with keyword \o suffix
FirstKw(t, kws, suffix) == LET m == SelectSeq(kws, LAMBDA k : StartsWith(t, k \o suffix)) IN IF m = <<>> THEN <<>> ELSE <<m[1]>>
Title(l, type, kws) == LET t == LTrim(l)  m == FirstKw(t, kws, <<COLON>>) IN
   IF m = <<>> THEN NoTok ELSE Tok(type, Indent(l) + 1, m[1], "", Trim(From(t, Len(m[1]) + 2)), 0, <<>>)
StepKws(D) == D.given \o D.when \o D.then \o D.and \o D.but
Count(k, s) == Len(SelectSeq(s, LAMBDA x : x = k))
\* the category of a step keyword when it is listed exactly once over given/when/then/(and+but), else Unknown
KwType(D, k) == LET n == Count(k, D.given) + Count(k, D.when) + Count(k, D.then) + Count(k, D.and \o D.but) IN
                IF n # 1 THEN "Unknown"
                ELSE IF InSeq(k, D.given) THEN "Context" ELSE IF InSeq(k, D.when) THEN "Action"
                ELSE IF InSeq(k, D.then) THEN "Outcome" ELSE "Conjunction"
StepLine(l, D) == LET t == LTrim(l)  m == FirstKw(t, StepKws(D), <<>>) IN
   IF m = <<>> THEN NoTok ELSE Tok("StepLine", Indent(l) + 1, m[1], KwType(D, m[1]), Trim(From(t, Len(m[1]) + 1)), 0, <<>>)

\* ---------------------------------------------------------------- tags
RECURSIVE CutComment(_, _)
\* everything before the first blank that is followed by '#'
CutComment(s, k) == IF k >= Len(s) THEN s ELSE IF IsWs(s[k]) /\ s[k + 1] = HASH THEN SubSeq(s, 1, k - 1) ELSE CutComment(s, k + 1)
RECURSIVE TagItems(_, _, _)
\* A tag is '@' and the text up to the next '@', minus TRAILING blanks: the name stands in the source exactly as reported
\* (C04 read-back).  Blanks directly after the '@' therefore make a tag "with whitespace".  The implementation trims both
\* sides and accepts '@ x' as tag '@x' (known finding C04/tag-blank-after-at; Java, Go, JavaScript and .NET reject it).
TagItems(items, k, col) == IF k > Len(items) THEN <<>> ELSE
     << [col |-> col, text |-> <<AT>> \o RTrim(items[k])] >> \o TagItems(items, k + 1, col + Len(items[k]) + 1)
TagLine(l) == LET t == LTrim(l) IN
   IF t = <<>> \/ t[1] # AT THEN NoTok ELSE
   LET u == Trim(CutComment(Trim(t), 1))
       its == TagItems(Tail(Split(u, AT)), 1, Indent(l) + 1)
       faulty == {j \in 1..Len(its) : HasWs(its[j].text)}
   IN IF faulty # {} THEN [ok |-> FALSE, exc |-> "tagws", col |-> its[CHOOSE j \in faulty : \A m \in faulty : j <= m].col]
      ELSE Tok("TagLine", Indent(l) + 1, <<>>, "", <<>>, 1, its)

\* The recorded deviation of the implementation (known finding C04/tag-blank-after-at), written down so that on the inputs of that class the
\* implementation is still held to SOMETHING: it trims both sides of a tag.  Used only to tell the known finding from any other difference.
RECURSIVE TagItemsAsImplemented(_, _, _)
TagItemsAsImplemented(items, k, col) == IF k > Len(items) THEN <<>> ELSE
     << [col |-> col, text |-> <<AT>> \o Trim(items[k])] >> \o TagItemsAsImplemented(items, k + 1, col + Len(items[k]) + 1)
TagLineAsImplemented(l) == LET t == LTrim(l) IN
   IF t = <<>> \/ t[1] # AT THEN NoTok ELSE
   LET u == Trim(CutComment(Trim(t), 1))
       its == TagItemsAsImplemented(Tail(Split(u, AT)), 1, Indent(l) + 1)
       faulty == {j \in 1..Len(its) : HasWs(its[j].text)}
   IN IF faulty # {} THEN [ok |-> FALSE, exc |-> "tagws", col |-> its[CHOOSE j \in faulty : \A m \in faulty : j <= m].col]
      ELSE Tok("TagLine", Indent(l) + 1, <<>>, "", <<>>, 1, its)

\* ---------------------------------------------------------------- table rows
Row(l) == LET t == LTrim(l) IN IF t = <<>> \/ t[1] # PIPE THEN NoTok ELSE Tok("TableRow", Indent(l) + 1, <<>>, "", <<>>, 1, CellsOf(l))

\* ---------------------------------------------------------------- doc strings and free text
Q3 == <<34, 34, 34>>
B3 == <<96, 96, 96>>
Esc(d) == <<BSL, d[1], BSL, d[2], BSL, d[3]>>
DocSep(l, ms) == LET t == LTrim(l) IN
   IF ms.sep = <<>> THEN    \* opening: either delimiter; the rest of the line is the media type
      IF StartsWith(t, Q3) THEN Tok("DocStringSeparator", Indent(l) + 1, Q3, "", Trim(From(t, 4)), 0, <<>>) @@ [ms |-> [ms EXCEPT !.sep = Q3, !.ind = Indent(l)]]
      ELSE IF StartsWith(t, B3) THEN Tok("DocStringSeparator", Indent(l) + 1, B3, "", Trim(From(t, 4)), 0, <<>>) @@ [ms |-> [ms EXCEPT !.sep = B3, !.ind = Indent(l)]]
      ELSE NoTok
   ELSE                     \* closing: only the delimiter that opened it
      IF StartsWith(t, ms.sep) THEN Tok("DocStringSeparator", Indent(l) + 1, ms.sep, "", <<>>, 1, <<>>) @@ [ms |-> [ms EXCEPT !.sep = <<>>, !.ind = 0]]
      ELSE NoTok
\* a content / description line: minus the opening delimiter's indentation (all of its own when it has less),
\* the escaped form of the ACTIVE delimiter turned back, line ending removed
Other(l, ms) == LET txt == IF ms.ind > Indent(l) THEN LTrim(l) ELSE From(l, ms.ind + 1)
                    un == IF ms.sep = <<>> THEN txt ELSE ReplAll(txt, Esc(ms.sep), ms.sep)
                IN Tok("Other", 1, <<>>, "", StripEol(un), 0, <<>>)
Comment(l) == LET t == LTrim(l) IN IF t = <<>> \/ t[1] # HASH THEN NoTok ELSE Tok("Comment", 1, <<>>, "", StripEol(l), 0, <<>>)
Empty(l) == IF LTrim(l) = <<>> THEN Tok("Empty", 1, <<>>, "", <<>>, 1, <<>>) ELSE NoTok

\* ---------------------------------------------------------------- language header
\* '#', blanks, "language", blanks, ':', blanks, a name over [A-Za-z_-]+, blanks -- and nothing else
RECURSIVE SkipWs(_, _)
SkipWs(s, k) == IF k <= Len(s) /\ IsWs(s[k]) THEN SkipWs(s, k + 1) ELSE k
IsNameCh(c) == (c >= 65 /\ c <= 90) \/ (c >= 97 /\ c <= 122) \/ c = 45 \/ c = 95
RECURSIVE SkipName(_, _)
SkipName(s, k) == IF k <= Len(s) /\ IsNameCh(s[k]) THEN SkipName(s, k + 1) ELSE k
LangWord == <<108, 97, 110, 103, 117, 97, 103, 101>>
LangName(l) == LET t == LTrim(l) IN           \* <<>> when the line is not a language header
   IF t = <<>> \/ t[1] # HASH THEN <<>> ELSE
   LET a == SkipWs(t, 2) IN IF ~StartsWith(From(t, a), LangWord) THEN <<>> ELSE
   LET b == SkipWs(t, a + 8) IN IF b > Len(t) \/ t[b] # COLON THEN <<>> ELSE
   LET c == SkipWs(t, b + 1)  d == SkipName(t, c) IN IF d = c THEN <<>> ELSE
   IF SkipWs(t, d) > Len(t) THEN SubSeq(t, c, d - 1) ELSE <<>>
LanguageTok(l) == Tok("Language", Indent(l) + 1, <<>>, "", LangName(l), 0, <<>>)

\* ---------------------------------------------------------------- one matcher call
Match(tok, l, ms, D) ==
   CASE tok = "#FeatureLine" -> Title(l, "FeatureLine", D.feature)
     [] tok = "#RuleLine" -> Title(l, "RuleLine", D.rule)
     [] tok = "#BackgroundLine" -> Title(l, "BackgroundLine", D.background)
     [] tok = "#ScenarioLine" -> LET a == Title(l, "ScenarioLine", D.scenario) IN IF a.ok THEN a ELSE Title(l, "ScenarioLine", D.scenarioOutline)
     [] tok = "#ExamplesLine" -> Title(l, "ExamplesLine", D.examples)
     [] tok = "#StepLine" -> StepLine(l, D)
     [] tok = "#TagLine" -> TagLine(l)
     [] tok = "#TableRow" -> Row(l)
     [] tok = "#DocStringSeparator" -> DocSep(l, ms)
     [] tok = "#Comment" -> Comment(l)
     [] tok = "#Empty" -> Empty(l)
     [] tok = "#Other" -> Other(l, ms)
     [] OTHER -> NoTok        \* #Language and #EOF are handled by the parser specification


\* ---------------------------------------------------------------- the token listing (TokenFormatterBuilder)
\* names as code points (TLC strings are not sequences)
NameCps == [
   EOF |-> <<69, 79, 70>>,
   Empty |-> <<69, 109, 112, 116, 121>>,
   Comment |-> <<67, 111, 109, 109, 101, 110, 116>>,
   TagLine |-> <<84, 97, 103, 76, 105, 110, 101>>,
   FeatureLine |-> <<70, 101, 97, 116, 117, 114, 101, 76, 105, 110, 101>>,
   RuleLine |-> <<82, 117, 108, 101, 76, 105, 110, 101>>,
   BackgroundLine |-> <<66, 97, 99, 107, 103, 114, 111, 117, 110, 100, 76, 105, 110, 101>>,
   ScenarioLine |-> <<83, 99, 101, 110, 97, 114, 105, 111, 76, 105, 110, 101>>,
   ExamplesLine |-> <<69, 120, 97, 109, 112, 108, 101, 115, 76, 105, 110, 101>>,
   StepLine |-> <<83, 116, 101, 112, 76, 105, 110, 101>>,
   DocStringSeparator |-> <<68, 111, 99, 83, 116, 114, 105, 110, 103, 83, 101, 112, 97, 114, 97, 116, 111, 114>>,
   TableRow |-> <<84, 97, 98, 108, 101, 82, 111, 119>>,
   Language |-> <<76, 97, 110, 103, 117, 97, 103, 101>>,
   Other |-> <<79, 116, 104, 101, 114>>,
   Context |-> <<67, 111, 110, 116, 101, 120, 116>>,
   Action |-> <<65, 99, 116, 105, 111, 110>>,
   Outcome |-> <<79, 117, 116, 99, 111, 109, 101>>,
   Conjunction |-> <<67, 111, 110, 106, 117, 110, 99, 116, 105, 111, 110>>,
   Unknown |-> <<85, 110, 107, 110, 111, 119, 110>> ]
RECURSIVE Digits(_)
Digits(n) == IF n < 10 THEN <<48 + n>> ELSE Digits(n \div 10) \o <<48 + (n % 10)>>
\* "(line:col)Type:(kwtype)keyword/text/col:item,col:item" -- "EOF" for the end-of-file token
FormatToken(t) ==
   IF t.type = "EOF" THEN NameCps["EOF"]
   ELSE <<40>> \o Digits(t.line) \o <<58>> \o Digits(t.col) \o <<41>> \o NameCps[t.type] \o <<58>>
        \o (IF t.kw # <<>> THEN <<40>> \o (IF t.kwt = "" THEN <<>> ELSE NameCps[t.kwt]) \o <<41>> \o t.kw ELSE <<>>)
        \o <<47>> \o t.text \o <<47>>
        \o JoinWith([j \in 1..Len(t.items) |-> Digits(t.items[j].col) \o <<58>> \o t.items[j].text], <<44>>)

EofTok == Tok("EOF", 0, <<>>, "", <<>>, 1, <<>>)
InitMatcher(default) == [dia |-> default, sep |-> <<>>, ind |-> 0]
=============================================================================
