SPECIFICATION Spec
INVARIANT Inv_NoDisagreement
INVARIANT Inv_PosInNFA
INVARIANT Inv_AcceptsSentences
CHECK_DEADLOCK FALSE
