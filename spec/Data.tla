--------------------------------- MODULE Data ---------------------------------
(***************************************************************************)
(* Data the harness writes next to the specification before TLC starts:    *)
(*  dialects.json  : dialect key |-> [feature, rule, background, scenario, *)
(*                   scenarioOutline, examples, given, when, then, and,    *)
(*                   but : Seq(keyword as code points)], converted at run  *)
(*                   time from /repo/gherkin-languages.json (the master    *)
(*                   table, never the package's copy)                      *)
(*  langnames.json : dialect key |-> the key as code points                *)
(***************************************************************************)
EXTENDS Json
Dialects == JsonDeserialize("dialects.json")
LangNames == JsonDeserialize("langnames.json")
=============================================================================
