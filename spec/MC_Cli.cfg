SPECIFICATION Spec
CONSTANT MaxArgs = 3
CONSTRAINT Emit
INVARIANT Inv_FlagsAnywhere
INVARIANT Inv_FileOrder
INVARIANT Inv_OneStream
CHECK_DEADLOCK FALSE
