------------------------------ MODULE MC_Markdown ------------------------------
(***************************************************************************)
(* C19, complete: every dialect x every listed keyword x header depth 0..7 *)
(* / bullet x separator x indentation; table rows indented 0..8; tag lines.*)
(* The invariants restate the property's clauses on the specification of   *)
(* the matcher; every case is printed with the predicted token for replay  *)
(* through the real GherkinInMarkdownTokenMatcher.match_* methods.         *)
(***************************************************************************)
EXTENDS Markdown, Data, Json
TitleRoles == <<"feature", "rule", "background", "scenario", "scenarioOutline", "examples">>
StepRoles == <<"given", "when", "then", "and", "but">>
ListOf(D, r) == CASE r = "feature" -> D.feature [] r = "rule" -> D.rule [] r = "background" -> D.background [] r = "scenario" -> D.scenario
                  [] r = "scenarioOutline" -> D.scenarioOutline [] r = "examples" -> D.examples [] r = "given" -> D.given [] r = "when" -> D.when
                  [] r = "then" -> D.then [] r = "and" -> D.and [] r = "but" -> D.but
TypeOfRole(r) == CASE r = "feature" -> "FeatureLine" [] r = "rule" -> "RuleLine" [] r = "background" -> "BackgroundLine"
                   [] r \in {"scenario", "scenarioOutline"} -> "ScenarioLine" [] r = "examples" -> "ExamplesLine" [] OTHER -> "StepLine"
TitleList(D, r) == IF r \in {"scenario", "scenarioOutline"} THEN D.scenario \o D.scenarioOutline ELSE ListOf(D, r)
Seps == << <<>>, <<32>>, <<9>>, <<32, 32>> >>
Bullets == << <<42>>, <<43>>, <<45>>, <<>>, <<49, 46>>, <<35>>, <<120, 32, 45>>, <<120, 42>> >>      \* the last two: a bullet character in mid-line is no bullet
Inds == << <<>>, <<32>>, <<32, 32, 32>>, <<32, 32, 32, 32>>, <<9, 32, 32, 32, 32, 32>> >>
VARIABLES vD, vKind, vRole, vK, vDepth, vSep, vInd, vSeen
mkvars == <<vD, vKind, vRole, vK, vDepth, vSep, vInd, vSeen>>
Init == /\ vD \in DOMAIN Dialects /\ vSeen = FALSE /\ vInd \in 1..Len(Inds) /\ vSep \in 1..Len(Seps)
        /\ \/ /\ vKind = "title" /\ vRole \in {TitleRoles[j] : j \in 1..Len(TitleRoles)} /\ vK \in 1..Len(ListOf(Dialects[vD], vRole)) /\ vDepth \in 0..7
           \/ /\ vKind = "step" /\ vRole \in {StepRoles[j] : j \in 1..Len(StepRoles)} /\ vK \in 1..Len(ListOf(Dialects[vD], vRole)) /\ vDepth \in 1..Len(Bullets)
Next == ~vSeen /\ vSeen' = TRUE /\ UNCHANGED <<vD, vKind, vRole, vK, vDepth, vSep, vInd>>
Spec == Init /\ [][Next]_mkvars
D == Dialects[vD]
Kw == ListOf(D, vRole)[vK]
Hashes(n) == [j \in 1..n |-> HASHC]
\* the title text varies with the case (plain, ending in '#', containing '#'), chosen deterministically
Titles == << <<116, 32, 120>>, <<67, 35>>, <<35, 32, 35>> >>
TitleOf == Titles[((vK + vDepth + vInd) % 3) + 1]
TestLine == IF vKind = "title" THEN Inds[vInd] \o Hashes(vDepth) \o Seps[vSep] \o Kw \o <<COLON, 32, 32>> \o TitleOf \o <<32, LF>>
            ELSE Inds[vInd] \o Bullets[vDepth] \o Seps[vSep] \o Kw \o <<116, 32, 120, 32, 32, LF>>
Res == IF vKind = "title" THEN MdTitle(TestLine, TypeOfRole(vRole), TitleList(D, vRole)) ELSE MdStep(TestLine, D)
\* "one to six '#' and a blank followed by a ... keyword and ':' is recognised in that role with the keyword, the trimmed title and the column of the keyword"
Inv_Header == (vSeen /\ vKind = "title") =>
   /\ (Res.ok <=> (vDepth \in 1..6 /\ Len(Seps[vSep]) = 1))
   /\ (Res.ok => /\ Res.type = TypeOfRole(vRole) /\ Res.text = TitleOf
                 /\ StartsWith(From(TestLine, Res.col), Res.kw \o <<COLON>>) /\ InSeq(Res.kw, TitleList(D, vRole))
                 /\ Res.col = Len(Inds[vInd]) + vDepth + 2)
\* "a list item ('*', '+' or '-') followed by a step keyword is recognised as a step"; "lines lacking the ... bullet prefix are not"
Inv_Bullet == (vSeen /\ vKind = "step") =>
   /\ (Res.ok <=> vDepth \in 1..3)
   /\ (Res.ok => /\ Res.type = "StepLine" /\ Res.text = Trim(UpToLf(From(TestLine, Res.col + Len(Res.kw)), 1))      \* the rest after the REPORTED keyword, trimmed
                 /\ (Res.kw = Kw => Res.text = <<116, 32, 120>>)
                 /\ StartsWith(From(TestLine, Res.col), Res.kw) /\ InSeq(Res.kw, StepKws(D))
                 /\ Res.col = Len(Inds[vInd]) + 1 + Len(Seps[vSep]) + 1)
Emit == vSeen => PrintT(<<"MD", ToJson([d |-> vD, kind |-> vKind, line |-> TestLine, ok |-> Res.ok,
                                        type |-> IF Res.ok THEN Res.type ELSE "", col |-> IF Res.ok THEN Res.col ELSE 0, kw |-> IF Res.ok THEN Res.kw ELSE <<>>,
                                        text |-> IF Res.ok THEN Res.text ELSE <<>>])>>)
=============================================================================
