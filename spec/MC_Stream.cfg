SPECIFICATION Spec
CONSTANT MaxSources = 2
CONSTANT MaxChanges = 1
CONSTRAINT Emit
INVARIANT Inv_C17_Order
INVARIANT Inv_C17_Options
INVARIANT Inv_C17_Uri
INVARIANT Inv_C17_Rejected
INVARIANT Inv_C11_Unique
INVARIANT Inv_C11_Dense
PROPERTY Act_Monotone
CHECK_DEADLOCK FALSE
