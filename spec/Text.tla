-------------------------------- MODULE Text --------------------------------
(***************************************************************************)
(* Text as sequences of Unicode code points (naturals).  TLC strings are   *)
(* not sequences and cannot carry non-ASCII text, so every piece of source *)
(* text, keyword, name, cell, ... in this specification is a Seq(Nat).     *)
(*                                                                         *)
(* The blank set Ws is the set of code points Python's str.strip() and the *)
(* regular-expression class \s remove (str.isspace()).                     *)
(***************************************************************************)
EXTENDS Naturals, Sequences, FiniteSets, SequencesExt, TLC

LF == 10
CR == 13
WsSet == {9,10,11,12,13,28,29,30,31,32,133,160,5760} \cup (8192..8202) \cup {8232,8233,8239,8287,12288}
IsWs(c) == c \in WsSet
IsBlankNoLf(c) == IsWs(c) /\ c # LF          \* what surrounds a cell and is trimmed ([^\S\n])

From(s, k) == SubSeq(s, k, Len(s))
StartsWith(s, p) == Len(p) <= Len(s) /\ SubSeq(s, 1, Len(p)) = p
InSeq(x, s) == \E j \in 1..Len(s) : s[j] = x

RECURSIVE LeadWs(_, _)
LeadWs(s, k) == IF k <= Len(s) /\ IsWs(s[k]) THEN LeadWs(s, k + 1) ELSE k - 1
Indent(l) == LeadWs(l, 1)                                   \* number of leading blanks
LTrim(s) == SubSeq(s, Indent(s) + 1, Len(s))
RECURSIVE LastNonWs(_, _)
LastNonWs(s, k) == IF k >= 1 /\ IsWs(s[k]) THEN LastNonWs(s, k - 1) ELSE k
RTrim(s) == SubSeq(s, 1, LastNonWs(s, Len(s)))
Trim(s) == RTrim(LTrim(s))
AllWs(s) == \A j \in 1..Len(s) : IsWs(s[j])
HasWs(s) == \E j \in 1..Len(s) : IsWs(s[j])

RECURSIVE LastNonEol(_, _)
LastNonEol(s, k) == IF k >= 1 /\ s[k] \in {LF, CR} THEN LastNonEol(s, k - 1) ELSE k
StripEol(s) == SubSeq(s, 1, LastNonEol(s, Len(s)))          \* rstrip("\r\n")

RECURSIVE LeadB(_, _)
LeadB(s, k) == IF k <= Len(s) /\ IsBlankNoLf(s[k]) THEN LeadB(s, k + 1) ELSE k - 1
RECURSIVE LastNonB(_, _)
LastNonB(s, k) == IF k >= 1 /\ IsBlankNoLf(s[k]) THEN LastNonB(s, k - 1) ELSE k
TrimBlanks(s) == LET a == LeadB(s, 1)  t == SubSeq(s, a + 1, Len(s)) IN SubSeq(t, 1, LastNonB(t, Len(t)))

RECURSIVE SplitAt(_, _, _, _)
\* split s at every occurrence of code point c (like str.split(c)); always yields >= 1 piece
SplitAt(s, c, k, cur) == IF k > Len(s) THEN <<cur>>
                         ELSE IF s[k] = c THEN <<cur>> \o SplitAt(s, c, k + 1, <<>>)
                         ELSE SplitAt(s, c, k + 1, Append(cur, s[k]))
Split(s, c) == SplitAt(s, c, 1, <<>>)

RECURSIVE JoinWith(_, _)
JoinWith(ss, sep) == IF ss = <<>> THEN <<>> ELSE IF Len(ss) = 1 THEN ss[1] ELSE ss[1] \o sep \o JoinWith(Tail(ss), sep)
JoinLF(ss) == JoinWith(ss, <<LF>>)

RECURSIVE ReplAll(_, _, _)
\* left-to-right, non-overlapping literal replacement (str.replace); pat is non-empty
ReplAll(s, pat, rep) == IF Len(s) < Len(pat) THEN s
                        ELSE IF StartsWith(s, pat) THEN rep \o ReplAll(From(s, Len(pat) + 1), pat, rep)
                        ELSE <<s[1]>> \o ReplAll(Tail(s), pat, rep)

\* lines of a source text: maximal runs up to and including a LF; a last line may lack it
LfPositions(s) == SelectSeq([j \in 1..Len(s) |-> j], LAMBDA j : s[j] = LF)
SplitLines(s) == LET ps == LfPositions(s)  n == Len(ps)  last == IF n = 0 THEN 0 ELSE ps[n] IN
                 [k \in 1..n |-> SubSeq(s, IF k = 1 THEN 1 ELSE ps[k - 1] + 1, ps[k])]
                 \o (IF last < Len(s) THEN <<SubSeq(s, last + 1, Len(s))>> ELSE <<>>)

RECURSIVE DedupSeq(_)
DedupSeq(s) == IF s = <<>> THEN <<>> ELSE <<Head(s)>> \o DedupSeq(SelectSeq(Tail(s), LAMBDA x : x # Head(s)))
=============================================================================
