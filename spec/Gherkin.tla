-------------------------------- MODULE Gherkin --------------------------------
(***************************************************************************)
(* The pipeline for one source: scanner lines -> matcher -> generated LL    *)
(* parser (table derived from the grammar) -> AST builder -> compiler.      *)
(*                                                                         *)
(* The parser state is one record                                          *)
(*   ps = [st    : grammar position (Grammar!States),                      *)
(*         ms    : matcher state (Lexer),                                  *)
(*         bs    : builder state incl. error list and error limit,         *)
(*         count : tokens delivered to the builder,                        *)
(*         done  : the parse loop has ended]                               *)
(* and ParseLine(ps, lines, j) is ONE iteration of Parser.parse's loop on  *)
(* line j (j = Len(lines)+1 is the end-of-file token): read_token,         *)
(* match_token_at_<st> trying the ordered transitions (matcher call, then  *)
(* look-ahead where hinted), the builder calls of the chosen transition,   *)
(* or the unexpected-token / unexpected-EOF error.  This is the big-step   *)
(* grain; Parser.tla has the same loop in small steps with the token       *)
(* queue, and MC_SmallStep checks the two agree.                           *)
(*                                                                         *)
(* Error-collecting mode has error limit 11, stop-at-first-error mode is   *)
(* the same machine with limit 1 (the first error ends the parse).         *)
(***************************************************************************)
EXTENDS Grammar, Lexer, AstBuilder, Compiler, Data

CollectCap == 11
StopCap == 1
CapOf(mode) == IF mode = "stop" THEN StopCap ELSE CollectCap

InitParse(default, nid, cap) ==
   [st |-> <<>>, ms |-> InitMatcher(default), bs |-> Push(InitBuilder(nid, cap), "GherkinDocument"), count |-> 0, done |-> FALSE]

IsEofIdx(lines, j) == j > Len(lines)
ErrTag(j, r) == [line |-> j, col |-> r.col, kind |-> "tag", exp |-> <<>>, got |-> <<>>]
ErrLang(j, l, nm) == [line |-> j, col |-> Indent(l) + 1, kind |-> "lang", exp |-> <<>>, got |-> nm]
ErrEof(j, exp) == [line |-> j, col |-> 0, kind |-> "eof", exp |-> exp, got |-> <<>>]
ErrUnexpected(j, l, exp) == [line |-> j, col |-> Indent(l) + 1, kind |-> "unexpected", exp |-> exp, got |-> Trim(l)]
CappedE(errs, cap) == Len(errs) >= cap

\* one matcher call through Parser.handle_external_error: a raised tag fault becomes an error and "no match"
MatchE(tokname, lines, j, m, errs) == LET r == Match(tokname, lines[j], m, Dialects[m.dia]) IN
    IF ~r.ok /\ "exc" \in DOMAIN r THEN [r |-> r, errs |-> AddErr(errs, ErrTag(j, r))] ELSE [r |-> r, errs |-> errs]

\* Parser.lookahead_<h.id> starting at line j: is the next line that is not a tag/comment/blank line the expected one?
RECURSIVE LookAhead(_, _, _, _, _, _)
LookAhead(h, lines, j, m, errs, cap) ==
   IF CappedE(errs, cap) THEN [ok |-> FALSE, errs |-> errs]
   ELSE IF IsEofIdx(lines, j) THEN [ok |-> FALSE, errs |-> errs]
   ELSE LET l == lines[j] IN
        IF Match(h.expect, l, m, Dialects[m.dia]).ok THEN [ok |-> TRUE, errs |-> errs]
        ELSE IF Empty(l).ok \/ Comment(l).ok THEN LookAhead(h, lines, j + 1, m, errs, cap)
        ELSE LET tg == MatchE("#TagLine", lines, j, m, errs) IN
             IF tg.r.ok THEN LookAhead(h, lines, j + 1, m, tg.errs, cap) ELSE [ok |-> FALSE, errs |-> tg.errs]

\* try the ordered transitions of position st from the n-th on; yields the index that fired (0: none), the token, the
\* matcher state after it and the errors raised on the way
RECURSIVE Try(_, _, _, _, _, _, _)
Try(n, st, lines, j, m, errs, cap) ==
   IF CappedE(errs, cap) THEN [hit |-> 0, errs |-> errs]
   ELSE IF n > Len(Table[st]) THEN [hit |-> 0, errs |-> errs]
   ELSE LET t == Table[st][n] IN
     IF IsEofIdx(lines, j) THEN (IF t.tok = "#EOF" THEN [hit |-> n, tok |-> EofTok, ms |-> m, errs |-> errs] ELSE Try(n + 1, st, lines, j, m, errs, cap))
     ELSE IF t.tok = "#EOF" THEN Try(n + 1, st, lines, j, m, errs, cap)
     ELSE IF t.tok = "#Language" THEN
          LET nm == LangName(lines[j])
              hits == {d \in DOMAIN LangNames : LangNames[d] = nm} IN
          IF nm = <<>> THEN Try(n + 1, st, lines, j, m, errs, cap)
          ELSE IF hits = {} THEN Try(n + 1, st, lines, j, m, AddErr(errs, ErrLang(j, lines[j], nm)), cap)   \* unknown dialect: error, dialect unchanged
          ELSE [hit |-> n, tok |-> LanguageTok(lines[j]), ms |-> [m EXCEPT !.dia = CHOOSE x \in hits : TRUE], errs |-> errs]
     ELSE LET me == MatchE(t.tok, lines, j, m, errs) IN
          IF ~me.r.ok THEN Try(n + 1, st, lines, j, m, me.errs, cap)
          ELSE IF t.la = NoHint THEN [hit |-> n, tok |-> me.r, ms |-> IF "ms" \in DOMAIN me.r THEN me.r.ms ELSE m, errs |-> me.errs]
          ELSE LET la == LookAhead(HintById(t.la), lines, j + 1, m, me.errs, cap) IN
               IF la.ok THEN [hit |-> n, tok |-> me.r, ms |-> m, errs |-> la.errs] ELSE Try(n + 1, st, lines, j, m, la.errs, cap)

\* what the builder receives: the matcher's token plus its line and the dialect in force when it was matched
Delivered(tok, j, m) == [x \in (DOMAIN tok) \ {"ms"} |-> tok[x]] @@ [line |-> j, dia |-> LangNames[m.dia]]

ParseLine(ps, lines, j) ==
   LET cap == ps.bs.cap
       r == Try(1, ps.st, lines, j, ps.ms, ps.bs.errs, cap)
       bs1 == [ps.bs EXCEPT !.errs = r.errs] IN
   IF CappedE(r.errs, cap) THEN [ps EXCEPT !.bs = bs1, !.done = TRUE]
   ELSE IF r.hit = 0 THEN
        LET exp == ExpectedAt(Table[ps.st])
            e == IF IsEofIdx(lines, j) THEN ErrEof(j, exp) ELSE ErrUnexpected(j, lines[j], exp)
            bs2 == [bs1 EXCEPT !.errs = AddErr(@, e)] IN
        [ps EXCEPT !.bs = bs2, !.done = IsEofIdx(lines, j) \/ Capped(bs2)]       \* position unchanged
   ELSE LET bs2 == ApplyProds(bs1, Table[ps.st][r.hit].prods, Delivered(r.tok, j, ps.ms)) IN
        IF Capped(bs2) THEN [ps EXCEPT !.bs = bs2, !.done = TRUE]
        ELSE [st |-> Table[ps.st][r.hit].target, ms |-> r.ms, bs |-> bs2, count |-> ps.count + 1, done |-> IsEofIdx(lines, j)]

\* which transition fires (0 none) and the token, for observers (conformance of tokens and builder events)
FiredAt(ps, lines, j) == Try(1, ps.st, lines, j, ps.ms, ps.bs.errs, ps.bs.cap)

RECURSIVE ParseFrom(_, _, _)
ParseFrom(ps, lines, j) == IF ps.done THEN ps ELSE ParseFrom(ParseLine(ps, lines, j), lines, j + 1)
\* Parser.parse(text) with a fresh (or reset) matcher and builder
ParseAll(lines, default, nid, cap) == ParseFrom(InitParse(default, nid, cap), lines, 1)

\* the same, also collecting what an observer of the builder sees: the delivered tokens and the builder calls made for each
RECURSIVE RunFrom(_, _, _, _, _, _)
RunFrom(ps, lines, j, toks, evs, sts) ==
   IF ps.done THEN [ps |-> ps, toks |-> toks, events |-> evs, sts |-> sts]
   ELSE LET nxt == ParseLine(ps, lines, j)  r == FiredAt(ps, lines, j)  delivered == nxt.count = ps.count + 1 IN
        RunFrom(nxt, lines, j + 1,
                IF delivered THEN Append(toks, Delivered(r.tok, j, ps.ms)) ELSE toks,
                IF delivered THEN Append(evs, Table[ps.st][r.hit].prods) ELSE evs,
                Append(sts, [st |-> ps.st, ms |-> ps.ms]))          \* sts[j]: parser position and matcher state BEFORE line j is read
RunAll(lines, default, nid, cap) == RunFrom(InitParse(default, nid, cap), lines, 1, <<>>, <<>>, <<>>)

Rejected(ps) == ps.bs.errs # <<>>
\* the id counter after Parser.parse returned or raised (the final end_rule is skipped when the error limit aborts)
NidAfter(ps) == IF Capped(ps.bs) THEN ps.bs.nid ELSE Pop(ps.bs).nid
DocumentOf(ps) == ResultOf(ps.bs)

(***************************************************************************)
(* The intrinsic KIND of a line (Grammar!Kinds) in a given matcher state:  *)
(* what the code-point matcher takes the line for when asked in the fixed  *)
(* order below.  Links real text to the kind-level specification           *)
(* (MC_Layering) and tells which rejected lines are keyword lines (Layout).*)
(***************************************************************************)
Known(nm) == \E d \in DOMAIN LangNames : LangNames[d] = nm
KindOf(l, ms) == LET D == Dialects[ms.dia] IN
   IF ms.sep # <<>> THEN (IF StartsWith(LTrim(l), ms.sep) THEN "#DocStringSeparator" ELSE "#Other")
   ELSE IF Empty(l).ok THEN "#Empty"
   ELSE IF LangName(l) # <<>> /\ Known(LangName(l)) THEN "#Language"
   ELSE IF Comment(l).ok THEN "#Comment"
   ELSE IF TagLine(l).ok THEN "#TagLine"
   ELSE IF Match("#FeatureLine", l, ms, D).ok THEN "#FeatureLine"
   ELSE IF Match("#RuleLine", l, ms, D).ok THEN "#RuleLine"
   ELSE IF Match("#BackgroundLine", l, ms, D).ok THEN "#BackgroundLine"
   ELSE IF Match("#ScenarioLine", l, ms, D).ok THEN "#ScenarioLine"
   ELSE IF Match("#ExamplesLine", l, ms, D).ok THEN "#ExamplesLine"
   ELSE IF Match("#StepLine", l, ms, D).ok THEN "#StepLine"
   ELSE IF DocSep(l, ms).ok THEN "#DocStringSeparator"
   ELSE IF Row(l).ok THEN "#TableRow"
   ELSE "#Other"

(***************************************************************************)
(* The same as a state machine over one source.                            *)
(***************************************************************************)
VARIABLES vLines,   \* the source, split into lines
          vLine,    \* scanner position: the next line to read
          vPs       \* parser state record
gvars == <<vLines, vLine, vPs>>
GInit(lines, default, nid, cap) == vLines = lines /\ vLine = 1 /\ vPs = InitParse(default, nid, cap)
GParseLine == /\ ~vPs.done
              /\ vPs' = ParseLine(vPs, vLines, vLine)
              /\ vLine' = vLine + 1
              /\ UNCHANGED vLines
=============================================================================
