------------------------------ MODULE AstBuilder ------------------------------
(***************************************************************************)
(* The AST builder: a stack of open rule nodes, the comment list, the id   *)
(* counter, and (threaded through, because builder faults are recorded in  *)
(* the parser's error list) the errors collected so far.                   *)
(*                                                                         *)
(*   bs = [stack    : Seq([rt, items : Seq([key, val])]),                  *)
(*         comments : Seq([line, col, text]),                              *)
(*         nid      : next id of the shared id generator,                  *)
(*         errs     : Seq(error record),  cap : error limit]               *)
(*                                                                         *)
(* Push / Pop / Build are AstBuilder.start_rule / end_rule / build.        *)
(* Pop = Transform: the per-rule construction of the AST node, INCLUDING   *)
(* the order in which ids are drawn (rows of a table in order; a step      *)
(* after its argument's rows; tags of an element, then the element itself; *)
(* children before their parent because children are ended first).         *)
(*                                                                         *)
(* AST nodes are uniform records; optional parts are 0/1-element sequences *)
(* (arg, media, header, feature).                                          *)
(***************************************************************************)
EXTENDS Text

Vals(node, key) == LET sel == SelectSeq(node.items, LAMBDA it : it.key = key) IN [j \in 1..Len(sel) |-> sel[j].val]

TagsFrom(toks, nid) ==
   LET all == FlattenSeq([j \in 1..Len(toks) |-> [m \in 1..Len(toks[j].items) |-> [line |-> toks[j].line, col |-> toks[j].items[m].col, name |-> toks[j].items[m].text]]])
   IN [v |-> [j \in 1..Len(all) |-> [id |-> nid + j - 1, line |-> all[j].line, col |-> all[j].col, name |-> all[j].name]], nid |-> nid + Len(all)]
GetTags(node, nid) == LET tn == Vals(node, "Tags") IN IF tn = <<>> THEN [v |-> <<>>, nid |-> nid] ELSE TagsFrom(Vals(tn[1], "TagLine"), nid)
GetRows(node, nid) == LET toks == Vals(node, "TableRow") IN
   [v |-> [j \in 1..Len(toks) |-> [id |-> nid + j - 1, line |-> toks[j].line, col |-> toks[j].col,
                                    cells |-> [m \in 1..Len(toks[j].items) |-> [col |-> toks[j].items[m].col, value |-> toks[j].items[m].text]]]],
    nid |-> nid + Len(toks)]
Desc(node) == LET d == Vals(node, "Description") IN IF d = <<>> THEN <<>> ELSE d[1]
\* trailing description lines that are blank (whitespace only) are dropped
RECURSIVE DropTrailingBlank(_)
DropTrailingBlank(toks) == IF toks # <<>> /\ AllWs(toks[Len(toks)].text) THEN DropTrailingBlank(SubSeq(toks, 1, Len(toks) - 1)) ELSE toks
Texts(toks) == [j \in 1..Len(toks) |-> toks[j].text]

Transform(node, nid) ==
  CASE node.rt = "Step" ->
        LET sl == Vals(node, "StepLine")[1]  dt == Vals(node, "DataTable")  ds == Vals(node, "DocString") IN
        [v |-> [t |-> "Step", id |-> nid, line |-> sl.line, col |-> sl.col, kw |-> sl.kw, kwt |-> sl.kwt, text |-> sl.text,
                arg |-> IF dt # <<>> THEN <<dt[1]>> ELSE IF ds # <<>> THEN <<ds[1]>> ELSE <<>>], nid |-> nid + 1]
    [] node.rt = "DocString" ->
        LET sep == Vals(node, "DocStringSeparator")[1]  ls == Vals(node, "Other") IN
        [v |-> [t |-> "DocString", line |-> sep.line, col |-> sep.col, content |-> JoinLF(Texts(ls)), delim |-> sep.kw,
                media |-> IF sep.text = <<>> THEN <<>> ELSE <<sep.text>>], nid |-> nid]
    [] node.rt = "DataTable" ->
        LET rs == GetRows(node, nid) IN [v |-> [t |-> "DataTable", line |-> rs.v[1].line, col |-> rs.v[1].col, rows |-> rs.v], nid |-> rs.nid]
    [] node.rt = "ExamplesTable" -> GetRows(node, nid)
    [] node.rt = "Description" -> [v |-> JoinLF(Texts(DropTrailingBlank(Vals(node, "Other")))), nid |-> nid]
    [] node.rt = "Background" ->
        LET bl == Vals(node, "BackgroundLine")[1] IN
        [v |-> [t |-> "Background", id |-> nid, line |-> bl.line, col |-> bl.col, kw |-> bl.kw, name |-> bl.text, desc |-> Desc(node), steps |-> Vals(node, "Step")], nid |-> nid + 1]
    [] node.rt = "ScenarioDefinition" ->
        LET tg == GetTags(node, nid)  sn == Vals(node, "Scenario")[1]  sl == Vals(sn, "ScenarioLine")[1] IN
        [v |-> [t |-> "Scenario", id |-> tg.nid, line |-> sl.line, col |-> sl.col, tags |-> tg.v, kw |-> sl.kw, name |-> sl.text, desc |-> Desc(sn),
                steps |-> Vals(sn, "Step"), examples |-> Vals(sn, "ExamplesDefinition")], nid |-> tg.nid + 1]
    [] node.rt = "ExamplesDefinition" ->
        LET tg == GetTags(node, nid)  en == Vals(node, "Examples")[1]  el == Vals(en, "ExamplesLine")[1]  tb == Vals(en, "ExamplesTable") IN
        [v |-> [t |-> "Examples", id |-> tg.nid, line |-> el.line, col |-> el.col, tags |-> tg.v, kw |-> el.kw, name |-> el.text, desc |-> Desc(en),
                header |-> IF tb = <<>> \/ tb[1] = <<>> THEN <<>> ELSE <<tb[1][1]>>, body |-> IF tb = <<>> \/ tb[1] = <<>> THEN <<>> ELSE Tail(tb[1])], nid |-> tg.nid + 1]
    [] node.rt = "Rule" ->
        LET hd == Vals(node, "RuleHeader")[1]  tg == GetTags(hd, nid)  rl == Vals(hd, "RuleLine")[1] IN
        [v |-> [t |-> "Rule", id |-> tg.nid, line |-> rl.line, col |-> rl.col, tags |-> tg.v, kw |-> rl.kw, name |-> rl.text, desc |-> Desc(hd),
                kids |-> Vals(node, "Background") \o Vals(node, "ScenarioDefinition")], nid |-> tg.nid + 1]
    [] node.rt = "Feature" ->
        LET hd == Vals(node, "FeatureHeader")[1]  tg == GetTags(hd, nid)  fl == Vals(hd, "FeatureLine")[1] IN
        [v |-> [t |-> "Feature", line |-> fl.line, col |-> fl.col, tags |-> tg.v, lang |-> fl.dia, kw |-> fl.kw, name |-> fl.text, desc |-> Desc(hd),
                kids |-> Vals(node, "Background") \o Vals(node, "ScenarioDefinition") \o Vals(node, "Rule")], nid |-> tg.nid]
    [] OTHER -> [v |-> node, nid |-> nid]      \* rules without a transformation stay nodes (Scenario, Examples, Tags, headers)

\* ---------------------------------------------------------------- the builder's actions as state transformers
InitBuilder(nid, cap) == [stack |-> <<[rt |-> "None", items |-> <<>>]>>, comments |-> <<>>, nid |-> nid, errs |-> <<>>, cap |-> cap]
Capped(bs) == Len(bs.errs) >= bs.cap
\* Parser.add_error: identical errors are reported once
AddErr(errs, e) == IF \E j \in 1..Len(errs) : errs[j] = e THEN errs ELSE Append(errs, e)
Push(bs, rt) == [bs EXCEPT !.stack = Append(@, [rt |-> rt, items |-> <<>>])]
AddTop(stack, key, val) == [stack EXCEPT ![Len(stack)].items = Append(@, [key |-> key, val |-> val])]
\* the first row whose cell count differs from the first row's; 0 when the table is rectangular
Ragged(nd) == LET toks == Vals(nd, "TableRow") IN
   IF nd.rt \notin {"DataTable", "ExamplesTable"} THEN 0
   ELSE LET badj == {j \in 1..Len(toks) : Len(toks[j].items) # Len(toks[1].items)} IN IF badj = {} THEN 0 ELSE CHOOSE j \in badj : \A m \in badj : j <= m
Pop(bs) == LET nd == bs.stack[Len(bs.stack)]  rest == SubSeq(bs.stack, 1, Len(bs.stack) - 1)  rg == Ragged(nd) IN
           IF rg # 0 THEN LET tk == Vals(nd, "TableRow")[rg] IN      \* the row ids are drawn before the fault is noticed; the node is dropped
                [bs EXCEPT !.stack = rest, !.nid = bs.nid + Len(Vals(nd, "TableRow")),
                           !.errs = AddErr(@, [line |-> tk.line, col |-> tk.col, kind |-> "ragged", exp |-> <<>>, got |-> <<>>])]
           ELSE LET r == Transform(nd, bs.nid) IN [bs EXCEPT !.stack = AddTop(rest, nd.rt, r.v), !.nid = r.nid]
Build(bs, tok) == IF tok.type = "Comment" THEN [bs EXCEPT !.comments = Append(@, [line |-> tok.line, col |-> tok.col, text |-> tok.text])]
                  ELSE [bs EXCEPT !.stack = AddTop(@, tok.type, tok)]
\* the builder calls of one parser transition, in order; the parse is abandoned as soon as the error limit is hit
RECURSIVE ApplyProds(_, _, _)
ApplyProds(bs, prods, tok) == IF prods = <<>> \/ Capped(bs) THEN bs ELSE
   LET p == Head(prods) IN
   ApplyProds(IF p[1] = "B" THEN Build(bs, tok) ELSE IF p[1] = "S" THEN Push(bs, p[2]) ELSE Pop(bs), Tail(prods), tok)
\* AstBuilder.get_result after the final end_rule('GherkinDocument')
ResultOf(bs) == LET fin == Pop(bs)  g == Vals(fin.stack[1], "GherkinDocument")[1] IN
                [feature |-> SelectSeq(Vals(g, "Feature"), LAMBDA f : "t" \in DOMAIN f), comments |-> fin.comments]
=============================================================================
