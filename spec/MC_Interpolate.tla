------------------------------ MODULE MC_Interpolate ------------------------------
(***************************************************************************)
(* C09 on the specification: every (template, header(s), value(s)) over an *)
(* adversarial alphabet ('<', '>', a letter, '.', backslash, '$', ...).    *)
(*  - the operational substitution (left-to-right scan, column by column)  *)
(*    equals the declarative one (cut at occurrences, join with value);    *)
(*  - text without the placeholder is unchanged; a placeholder for a name  *)
(*    that is not a header stays; the value arrives verbatim (the result   *)
(*    has exactly  occurrences x (|value| - |placeholder|)  more symbols); *)
(*  - two columns are applied in header order (the second sees what the    *)
(*    first inserted).                                                     *)
(* Every case is printed with the expected result and replayed through the *)
(* real compiler on an outline carrying the template in its name, step     *)
(* text, table cell, doc string content and media type.                    *)
(***************************************************************************)
EXTENDS Interpolate, Json
CONSTANTS Alpha, MaxTemplate, Headers, Values
VARIABLES vT, vH, vV, vSeen
ivars == <<vT, vH, vV, vSeen>>
Init == /\ vT \in UNION { [1..m -> Alpha] : m \in 0..MaxTemplate }
        /\ vH \in Headers /\ vV \in Values /\ Len(vV) = Len(vH)       \* vH, vV : sequences of columns
        /\ vSeen = FALSE
Next == ~vSeen /\ vSeen' = TRUE /\ UNCHANGED <<vT, vH, vV>>
Spec == Init /\ [][Next]_ivars
Res == Interp(vT, vH, vV)
RECURSIVE CountOcc(_, _)
CountOcc(s, pat) == IF Len(s) < Len(pat) THEN 0 ELSE IF StartsWith(s, pat) THEN 1 + CountOcc(From(s, Len(pat) + 1), pat) ELSE CountOcc(Tail(s), pat)
Inv_OperationalIsDeclarative == vSeen => Res = InterpDecl(vT, vH, vV)
Inv_NoPlaceholderUnchanged == (vSeen /\ Len(vH) = 1 /\ ~Occurs(vT, Placeholder(vH[1]))) => Res = vT
Inv_Literal == (vSeen /\ Len(vH) = 1) =>
                  LET p == Placeholder(vH[1])  n == CountOcc(vT, p) IN
                  /\ Len(Res) = Len(vT) + n * Len(vV[1]) - n * Len(p)
                  /\ (n > 0 /\ vV[1] # <<>> => Occurs(Res, vV[1]))
Inv_Sequential == (vSeen /\ Len(vH) = 2) => Res = ReplAll(ReplAll(vT, Placeholder(vH[1]), vV[1]), Placeholder(vH[2]), vV[2])
Emit == vSeen => PrintT(<<"INTERP", ToJson([t |-> vT, h |-> vH, v |-> vV, r |-> Res])>>)
=============================================================================
