SPECIFICATION Spec
CONSTRAINT Report
CHECK_DEADLOCK FALSE
