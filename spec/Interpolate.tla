------------------------------ MODULE Interpolate ------------------------------
(***************************************************************************)
(* Placeholder substitution for example rows.                              *)
(*                                                                         *)
(* Operational: for each header cell h, in header order, scan the text     *)
(* left to right and replace every non-overlapping occurrence of the       *)
(* literal '<' h '>' by the row's value (Text!ReplAll), feeding the result *)
(* to the next column.                                                     *)
(* Declarative: the text is cut at the leftmost non-overlapping            *)
(* occurrences of the literal and the pieces are joined with the value.    *)
(* MC_Interpolate checks the two agree and the property clauses (no        *)
(* placeholder => unchanged; unknown <x> stays; value inserted verbatim).  *)
(***************************************************************************)
EXTENDS Text

LT == 60
GT == 62
Placeholder(h) == <<LT>> \o h \o <<GT>>

RECURSIVE Interp(_, _, _)
Interp(s, hdr, vals) == IF hdr = <<>> THEN s ELSE Interp(ReplAll(s, Placeholder(hdr[1]), vals[1]), Tail(hdr), Tail(vals))

\* ---- declarative
RECURSIVE CutAt(_, _, _)
\* pieces of s between leftmost non-overlapping occurrences of pat (pat non-empty)
CutAt(s, pat, cur) == IF Len(s) < Len(pat) THEN <<cur \o s>>
                      ELSE IF StartsWith(s, pat) THEN <<cur>> \o CutAt(From(s, Len(pat) + 1), pat, <<>>)
                      ELSE CutAt(Tail(s), pat, Append(cur, s[1]))
ReplDecl(s, pat, rep) == JoinWith(CutAt(s, pat, <<>>), rep)
Occurs(s, pat) == \E k \in 1..(Len(s) - Len(pat) + 1) : SubSeq(s, k, k + Len(pat) - 1) = pat
RECURSIVE InterpDecl(_, _, _)
InterpDecl(s, hdr, vals) == IF hdr = <<>> THEN s ELSE InterpDecl(ReplDecl(s, Placeholder(hdr[1]), vals[1]), Tail(hdr), Tail(vals))
=============================================================================
