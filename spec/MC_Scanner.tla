------------------------------ MODULE MC_Scanner ------------------------------
(***************************************************************************)
(* Every argument over {a, d, CR, LF, NUL} up to MaxLen against a small    *)
(* file system (file "a", empty file "aa", directory "d"), and every file  *)
(* content over {x, CR, LF} up to MaxLen read through the path "a": the    *)
(* reading machine run to two end-of-file tokens.                          *)
(* Theorems (invariants at halt): the machine's output is the declarative  *)
(* line list; lines partition the text and end at LF only; a file whose    *)
(* carriage returns occur only in CR LF pairs reads as the string with     *)
(* CR LF written as LF (the link to Layout's "crlf" transformation, C16);  *)
(* implemented and documented streams differ only inside the recorded      *)
(* finding class (C01).  Each case is printed for replay through the real  *)
(* TokenScanner in a scratch directory holding exactly this file system.   *)
(***************************************************************************)
EXTENDS Scanner, Json
CONSTANTS MaxLen
ArgAlpha == {97, 100, CR, LF, 0}
FileAlpha == {120, CR, LF}
FileA == <<120, CR, LF, 121, CR, 122>>          \* "x\r\ny\rz"
FsFixed == (<<97>> :> FileA) @@ (<<97, 97>> :> <<>>) @@ (<<100>> :> Dir)
VARIABLES vKind, vArg, vFs, vText, vOk, vPos, vNo, vOut, vEofs
svars == <<vKind, vArg, vFs, vText, vOk, vPos, vNo, vOut, vEofs>>
Open(kind, arg, fs) == LET st == StreamImplemented(arg, fs) IN
   /\ vKind = kind /\ vArg = arg /\ vFs = fs /\ vText = st.text /\ vOk = st.ok /\ vPos = 1 /\ vNo = 0 /\ vOut = <<>> /\ vEofs = 0
Init == \/ \E arg \in UNION { [1..m -> ArgAlpha] : m \in 0..MaxLen } : Open("arg", arg, FsFixed)
        \/ \E c \in UNION { [1..m -> FileAlpha] : m \in 0..(MaxLen + 1) } : Open("file", <<97>>, (<<97>> :> c))
Halted == ~vOk \/ vEofs = 2
Read == /\ ~Halted
        /\ LET r == ReadResult(vText, vPos, vNo) IN
           /\ vOut' = Append(vOut, [eof |-> r.eof, line |-> r.line, no |-> r.no])
           /\ vPos' = r.pos /\ vNo' = r.no /\ vEofs' = vEofs + (IF r.eof THEN 1 ELSE 0)
        /\ UNCHANGED <<vKind, vArg, vFs, vText, vOk>>
Next == Read
Spec == Init /\ [][Next]_svars
RECURSIVE Concat(_)
Concat(ss) == IF ss = <<>> THEN <<>> ELSE Head(ss) \o Concat(Tail(ss))
Lines == SelectSeq(vOut, LAMBDA t : ~t.eof)
Inv_Machine == (Halted /\ vOk) => vOut = Expected(vText, 2)
Inv_Partition == (Halted /\ vOk) =>
   /\ Concat([k \in 1..Len(Lines) |-> Lines[k].line]) = vText
   /\ \A k \in 1..Len(Lines) : LET l == Lines[k].line IN
        /\ l # <<>> /\ (k < Len(Lines) => l[Len(l)] = LF) /\ \A j \in 1..(Len(l) - 1) : l[j] # LF
Inv_NumbersCountOn == \A k \in 1..Len(vOut) : vOut[k].no = k
Inv_FileIsCrLfString == (vKind = "file" /\ CrOnlyInPairs(vFs[<<97>>])) => vText = CrLfToLf(vFs[<<97>>])
Inv_DeviationConfined == StreamImplemented(vArg, vFs) # StreamDocumented(vArg, vFs) => InKnownFindingClass(vArg, vFs)
Inv_DocumentedOutside == ~InKnownFindingClass(vArg, vFs) => (vOk /\ vText = vArg)
Emit == Halted => PrintT(<<"SCN", ToJson([kind |-> vKind, arg |-> vArg, content |-> IF vKind = "file" THEN vFs[<<97>>] ELSE <<>>, ok |-> vOk, out |-> vOut,
                                        known |-> InKnownFindingClass(vArg, vFs)])>>)
=============================================================================
