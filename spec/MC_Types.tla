--------------------------------- MODULE MC_Types ---------------------------------
(***************************************************************************)
(* C10 on the specification: every sequence of step keyword types over     *)
(* background (0..MaxBg steps) and scenario (0..MaxSc steps), compiled as  *)
(* a plain scenario and as an outline with one example row.  The pickle    *)
(* step types are definite, follow the keyword category, conjunctions      *)
(* inherit across the background/scenario boundary, and the two paths      *)
(* agree.  Printed for replay through the real compiler.                   *)
(***************************************************************************)
EXTENDS Props
CONSTANTS MaxBg, MaxSc, MaxRuleBg
KT == {"Context", "Action", "Outcome", "Conjunction", "Unknown"}
VARIABLES vBg, vRb, vSc, vSeen
tvars == <<vBg, vRb, vSc, vSeen, vLines, vLine, vPs>>
Init == /\ vBg \in UNION { [1..m -> KT] : m \in 0..MaxBg } /\ vSc \in UNION { [1..m -> KT] : m \in 0..MaxSc } /\ vSeen = FALSE
        /\ vRb \in UNION { [1..m -> KT] : m \in 0..MaxRuleBg }      \* steps of the background of the RULE the scenario stands in (none: the scenario is at feature level)
        /\ vLines = <<>> /\ vLine = 0 /\ vPs = 0
Next == ~vSeen /\ vSeen' = TRUE /\ UNCHANGED <<vBg, vRb, vSc, vLines, vLine, vPs>>
Spec == Init /\ [][Next]_tvars
StepOf(kwt, id) == [t |-> "Step", id |-> id, line |-> id + 1, col |-> 1, kw |-> <<42, 32>>, kwt |-> kwt, text |-> <<120>>, arg |-> <<>>]
BgSteps0 == [j \in 1..Len(vBg) |-> StepOf(vBg[j], j - 1)]
RbSteps0 == [j \in 1..Len(vRb) |-> StepOf(vRb[j], 200 + j)]
ScSteps0 == [j \in 1..Len(vSc) |-> StepOf(vSc[j], Len(vBg) + j)]
RowOf(id, val) == [id |-> id, line |-> 90, col |-> 1, cells |-> << [col |-> 2, value |-> val] >>]
DocOf(outline) ==
   LET n == Len(vBg) + Len(vSc)
       bg == [t |-> "Background", id |-> Len(vBg), line |-> 2, col |-> 1, kw |-> <<66>>, name |-> <<>>, desc |-> <<>>, steps |-> BgSteps0]
       ex == [t |-> "Examples", id |-> n + 3, line |-> 80, col |-> 1, tags |-> <<>>, kw |-> <<69>>, name |-> <<>>, desc |-> <<>>,
              header |-> <<RowOf(n + 1, <<104>>)>>, body |-> <<RowOf(n + 2, <<49>>), RowOf(n + 5, <<50>>)>>]
       sc == [t |-> "Scenario", id |-> n + 4, line |-> 50, col |-> 1, tags |-> <<>>, kw |-> <<83>>, name |-> <<115>>, desc |-> <<>>, steps |-> ScSteps0,
              examples |-> IF outline THEN <<ex>> ELSE <<>>]
       rbg == [t |-> "Background", id |-> 300, line |-> 40, col |-> 1, kw |-> <<66>>, name |-> <<>>, desc |-> <<>>, steps |-> RbSteps0]
       rule == [t |-> "Rule", id |-> 301, line |-> 39, col |-> 1, tags |-> <<>>, kw |-> <<82>>, name |-> <<>>, desc |-> <<>>, kids |-> <<rbg, sc>>]
   IN [feature |-> << [t |-> "Feature", line |-> 1, col |-> 1, tags |-> <<>>, lang |-> <<101, 110>>, kw |-> <<70>>, name |-> <<102>>, desc |-> <<>>,
                       kids |-> IF vRb = <<>> THEN <<bg, sc>> ELSE <<bg, rule>>] >>,
       comments |-> <<>>]
TypesOf(doc) == LET pk == Compile(doc, <<117>>, 100) IN [j \in 1..Len(pk[1].steps) |-> pk[1].steps[j].type]
All == vBg \o vRb \o vSc
Inv_Definite == vSeen => \A j \in 1..Len(TypesOf(DocOf(FALSE))) : TypesOf(DocOf(FALSE))[j] \in StepTypes
Inv_FromKeyword == vSeen => LET ts == TypesOf(DocOf(FALSE)) IN
   /\ Len(ts) = (IF vSc = <<>> THEN 0 ELSE Len(All))
   /\ \A j \in 1..Len(ts) : /\ (All[j] \in {"Context", "Action", "Outcome", "Unknown"} => ts[j] = All[j])
                            /\ (All[j] = "Conjunction" /\ j = 1 => ts[j] = "Unknown")
                            /\ (All[j] = "Conjunction" /\ j > 1 => ts[j] = ts[j - 1])
Inv_PlainEqualsOutline == vSeen => /\ TypesOf(DocOf(FALSE)) = TypesOf(DocOf(TRUE))
                                   /\ LET pk == Compile(DocOf(TRUE), <<117>>, 100) IN [j \in 1..Len(pk[2].steps) |-> pk[2].steps[j].type] = TypesOf(DocOf(TRUE))   \* every row alike
Inv_P_C10 == vSeen => P_C10(Compile(DocOf(TRUE), <<117>>, 100), EPs(DocOf(TRUE), <<117>>)) /\ P_C10(Compile(DocOf(FALSE), <<117>>, 100), EPs(DocOf(FALSE), <<117>>))
Emit == vSeen => PrintT(<<"TYPES", ToJson([bg |-> vBg, rb |-> vRb, sc |-> vSc, plain |-> TypesOf(DocOf(FALSE)), outline |-> TypesOf(DocOf(TRUE))])>>)
=============================================================================
