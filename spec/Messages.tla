-------------------------------- MODULE Messages --------------------------------
(***************************************************************************)
(* The Cucumber Messages shapes the stream emits, as data (transcribed by  *)
(* hand from the messages JSON schema -- it is not part of this repository *)
(* -- and validated against all reference .ndjson files of the acceptance  *)
(* corpus by the C17 check).                                               *)
(*                                                                         *)
(* A SHAPE is what the harness reduces a JSON value to: "str", "int",      *)
(* "bool", "null", <<"enum", value>> for vocabulary fields, a sequence     *)
(* <<"list", s1, ..., sn>> of element shapes, or a record field |-> shape  *)
(* ("missing" is simply absence from the record).                          *)
(***************************************************************************)
EXTENDS Naturals, Sequences, FiniteSets, TLC

KeywordTypes == {"Unknown", "Context", "Action", "Outcome", "Conjunction"}
StepTypes2 == {"Unknown", "Context", "Action", "Outcome"}
MediaTypes == {"text/x.cucumber.gherkin+plain", "text/x.cucumber.gherkin+markdown"}

\* type expressions and shapes are uniform records (TLC refuses to compare a string with a record):
\*   types : [k |-> Str] | [k |-> Int] | [k |-> "enum", vals] | [k |-> "list", of] | [k |-> "obj", n]
\*   shapes: [k |-> Str | "int" | "bool" | "null" | "emptyobj"] | [k |-> "enum", v] | [k |-> "list", items] | [k |-> "obj", f : field |-> shape]
Str == [k |-> "str"]
Int == [k |-> "int"]
Enum(vals) == [k |-> "enum", vals |-> vals]
Obj(n) == [k |-> "obj", n |-> n]
List(t) == [k |-> "list", of |-> t]
Schema == [
  Envelope        |-> [req |-> {}, opt |-> {"source", "gherkinDocument", "pickle", "parseError"},
                       ty |-> [source |-> Obj("Source"), gherkinDocument |-> Obj("GherkinDocument"), pickle |-> Obj("Pickle"), parseError |-> Obj("ParseError")]],
  Source          |-> [req |-> {"uri", "data", "mediaType"}, opt |-> {}, ty |-> [uri |-> Str, data |-> Str, mediaType |-> Enum(MediaTypes)]],
  Location        |-> [req |-> {"line"}, opt |-> {"column"}, ty |-> [line |-> Int, column |-> Int]],
  GherkinDocument |-> [req |-> {"comments"}, opt |-> {"uri", "feature"}, ty |-> [uri |-> Str, feature |-> Obj("Feature"), comments |-> List(Obj("Comment"))]],
  Comment         |-> [req |-> {"location", "text"}, opt |-> {}, ty |-> [location |-> Obj("Location"), text |-> Str]],
  Feature         |-> [req |-> {"location", "tags", "language", "keyword", "name", "description", "children"}, opt |-> {},
                       ty |-> [location |-> Obj("Location"), tags |-> List(Obj("Tag")), language |-> Str, keyword |-> Str, name |-> Str, description |-> Str,
                               children |-> List(Obj("FeatureChild"))]],
  FeatureChild    |-> [req |-> {}, opt |-> {"rule", "background", "scenario"}, ty |-> [rule |-> Obj("Rule"), background |-> Obj("Background"), scenario |-> Obj("Scenario")]],
  RuleChild       |-> [req |-> {}, opt |-> {"background", "scenario"}, ty |-> [background |-> Obj("Background"), scenario |-> Obj("Scenario")]],
  Rule            |-> [req |-> {"location", "tags", "keyword", "name", "description", "children", "id"}, opt |-> {},
                       ty |-> [location |-> Obj("Location"), tags |-> List(Obj("Tag")), keyword |-> Str, name |-> Str, description |-> Str,
                               children |-> List(Obj("RuleChild")), id |-> Str]],
  Background      |-> [req |-> {"location", "keyword", "name", "description", "steps", "id"}, opt |-> {},
                       ty |-> [location |-> Obj("Location"), keyword |-> Str, name |-> Str, description |-> Str, steps |-> List(Obj("Step")), id |-> Str]],
  Scenario        |-> [req |-> {"location", "tags", "keyword", "name", "description", "steps", "examples", "id"}, opt |-> {},
                       ty |-> [location |-> Obj("Location"), tags |-> List(Obj("Tag")), keyword |-> Str, name |-> Str, description |-> Str,
                               steps |-> List(Obj("Step")), examples |-> List(Obj("Examples")), id |-> Str]],
  Examples        |-> [req |-> {"location", "tags", "keyword", "name", "description", "tableBody", "id"}, opt |-> {"tableHeader"},
                       ty |-> [location |-> Obj("Location"), tags |-> List(Obj("Tag")), keyword |-> Str, name |-> Str, description |-> Str,
                               tableHeader |-> Obj("TableRow"), tableBody |-> List(Obj("TableRow")), id |-> Str]],
  Step            |-> [req |-> {"location", "keyword", "text", "id"}, opt |-> {"keywordType", "docString", "dataTable"},
                       ty |-> [location |-> Obj("Location"), keyword |-> Str, keywordType |-> Enum(KeywordTypes), text |-> Str,
                               docString |-> Obj("DocString"), dataTable |-> Obj("DataTable"), id |-> Str]],
  DocString       |-> [req |-> {"location", "content", "delimiter"}, opt |-> {"mediaType"},
                       ty |-> [location |-> Obj("Location"), mediaType |-> Str, content |-> Str, delimiter |-> Str]],
  DataTable       |-> [req |-> {"location", "rows"}, opt |-> {}, ty |-> [location |-> Obj("Location"), rows |-> List(Obj("TableRow"))]],
  TableRow        |-> [req |-> {"location", "cells", "id"}, opt |-> {}, ty |-> [location |-> Obj("Location"), cells |-> List(Obj("TableCell")), id |-> Str]],
  TableCell       |-> [req |-> {"location", "value"}, opt |-> {}, ty |-> [location |-> Obj("Location"), value |-> Str]],
  Tag             |-> [req |-> {"location", "name", "id"}, opt |-> {}, ty |-> [location |-> Obj("Location"), name |-> Str, id |-> Str]],
  Pickle          |-> [req |-> {"id", "uri", "name", "language", "steps", "tags", "astNodeIds"}, opt |-> {},
                       ty |-> [id |-> Str, uri |-> Str, name |-> Str, language |-> Str, steps |-> List(Obj("PickleStep")), tags |-> List(Obj("PickleTag")),
                               astNodeIds |-> List(Str)]],
  PickleStep      |-> [req |-> {"astNodeIds", "id", "text"}, opt |-> {"argument", "type"},
                       ty |-> [argument |-> Obj("PickleStepArgument"), astNodeIds |-> List(Str), id |-> Str, type |-> Enum(StepTypes2), text |-> Str]],
  PickleStepArgument |-> [req |-> {}, opt |-> {"docString", "dataTable"}, ty |-> [docString |-> Obj("PickleDocString"), dataTable |-> Obj("PickleTable")]],
  PickleDocString |-> [req |-> {"content"}, opt |-> {"mediaType"}, ty |-> [mediaType |-> Str, content |-> Str]],
  PickleTable     |-> [req |-> {"rows"}, opt |-> {}, ty |-> [rows |-> List(Obj("PickleTableRow"))]],
  PickleTableRow  |-> [req |-> {"cells"}, opt |-> {}, ty |-> [cells |-> List(Obj("PickleTableCell"))]],
  PickleTableCell |-> [req |-> {"value"}, opt |-> {}, ty |-> [value |-> Str]],
  PickleTag       |-> [req |-> {"name", "astNodeId"}, opt |-> {}, ty |-> [name |-> Str, astNodeId |-> Str]],
  ParseError      |-> [req |-> {"source", "message"}, opt |-> {}, ty |-> [source |-> Obj("SourceReference"), message |-> Str]],
  SourceReference |-> [req |-> {}, opt |-> {"uri", "location"}, ty |-> [uri |-> Str, location |-> Obj("Location")]] ]

RECURSIVE Fits(_, _)
\* does shape s fit type expression t?  ("null" never fits: absent optional fields must be omitted)
Fits(s, t) ==
   IF t.k \in {"str", "int"} THEN s.k = t.k
   ELSE IF t.k = "enum" THEN s.k = "enum" /\ s.v \in t.vals
   ELSE IF t.k = "list" THEN s.k = "list" /\ \A j \in 1..Len(s.items) : Fits(s.items[j], t.of)
   ELSE LET sch == Schema[t.n] IN
        IF s.k = "emptyobj" THEN sch.req = {}
        ELSE /\ s.k = "obj"
             /\ sch.req \subseteq DOMAIN s.f
             /\ DOMAIN s.f \subseteq (sch.req \cup sch.opt)
             /\ \A x \in DOMAIN s.f : Fits(s.f[x], sch.ty[x])
\* an envelope: exactly one of the four kinds
WellFormedEnvelope(s) == Fits(s, Obj("Envelope")) /\ s.k = "obj" /\ Cardinality(DOMAIN s.f) = 1
=============================================================================
