---------------------------- MODULE Trace_Pipeline ----------------------------
(***************************************************************************)
(* code -> spec.  Each entry of docs.json is one recorded execution of the *)
(* real Parser.parse (+ Compiler.compile) on a source text: the input as   *)
(* code points, and what was observed (tokens delivered to the builder,    *)
(* builder calls per token, the resulting AST / error list / pickles, the  *)
(* id counter afterwards).                                                 *)
(*                                                                         *)
(* One initial state per trace (so TLC's workers validate traces in        *)
(* parallel); the specification is advanced by its OWN action GParseLine   *)
(* fed with the recorded input only, and every recorded observation is     *)
(* compared with the specification's value.  The pipeline is deterministic *)
(* so the trace never branches; the first non-conforming step of a trace   *)
(* is recorded in vBad (naming the clause) and printed.  Every trace runs   *)
(* to its end and prints one DONE line with the verdict of each            *)
(* end-of-trace clause.                                                    *)
(***************************************************************************)
EXTENDS Props
Docs == JsonDeserialize("docs.json")
NDocs == Len(Docs)

VARIABLES vTid, vBad
tvars == <<vLines, vLine, vPs, vTid, vBad>>

Init == /\ vTid \in 1..NDocs
        /\ GInit(Docs[vTid].lines, Docs[vTid].dialect, Docs[vTid].nid0, CapOf(Docs[vTid].mode))
        /\ vBad = <<>>

SameTok(a, b) == /\ a.type = b.type /\ a.col = b.col /\ a.kw = b.kw /\ a.kwt = b.kwt /\ a.text = b.text /\ a.notext = b.notext
                 /\ a.line = b.line
                 /\ Len(a.items) = Len(b.items) /\ \A x \in 1..Len(a.items) : a.items[x].col = b.items[x].col /\ a.items[x].text = b.items[x].text
TokView(t) == [type |-> t.type, col |-> t.col, kw |-> t.kw, kwt |-> t.kwt, text |-> t.text, notext |-> t.notext, line |-> t.line, items |-> t.items]

Mismatch(clause, detail) == IF PrintT(<<"MISMATCH", ToJson([tid |-> vTid, name |-> Docs[vTid].name, clause |-> clause, line |-> vLine, detail |-> detail])>>) THEN <<clause, vLine>> ELSE <<>>

\* the observation that belongs to this step, compared with what the specification does in this step
StepVerdict ==
   LET d == Docs[vTid]
       r == FiredAt(vPs, vLines, vLine)
       nxt == ParseLine(vPs, vLines, vLine)
       delivered == nxt.count = vPs.count + 1
       k == vPs.count + 1 IN
   IF ~delivered THEN <<>>
   ELSE IF k > Len(d.toks) THEN Mismatch("tokens.extra", [spec |-> TokView(Delivered(r.tok, vLine, vPs.ms))])
   ELSE IF ~SameTok(Delivered(r.tok, vLine, vPs.ms), d.toks[k]) THEN Mismatch("tokens.fields", [spec |-> TokView(Delivered(r.tok, vLine, vPs.ms)), impl |-> d.toks[k]])
   ELSE IF d.listing # <<>> /\ FormatToken(Delivered(r.tok, vLine, vPs.ms)) # d.listing[k] THEN Mismatch("listing", [spec |-> FormatToken(Delivered(r.tok, vLine, vPs.ms)), impl |-> d.listing[k]])
   ELSE IF Table[vPs.st][r.hit].prods # d.events[k] THEN Mismatch("events", [spec |-> Table[vPs.st][r.hit].prods, impl |-> d.events[k]])
   ELSE <<>>

\* the first non-conforming step is recorded (and printed); the trace nevertheless runs to its end so that the end-of-trace
\* clauses are evaluated too (a disagreement in one clause must not hide the others, which may belong to other properties)
Next == /\ GParseLine
        /\ vBad' = IF vBad = <<>> THEN StepVerdict ELSE vBad
        /\ UNCHANGED vTid
Spec == Init /\ [][Next]_tvars

(***************************************************************************)
(* End-of-trace clauses.                                                   *)
(***************************************************************************)
Finished == vPs.done
Accepted == ~Rejected(vPs)
SpecDoc == DocumentOf(vPs)
SpecPickles == Compile(SpecDoc, Docs[vTid].uri, NidAfter(vPs))
EndVerdicts ==
   LET d == Docs[vTid] IN
   [ outcome   |-> (Accepted <=> d.ok = 1) /\ d.exc = "",
     delivered |-> vPs.count = Len(d.toks),
     errors    |-> vPs.bs.errs = d.errs,
     ast       |-> Accepted /\ d.ok = 1 => SpecDoc = d.ast,
     pickles   |-> Accepted /\ d.ok = 1 /\ d.compiled = 1 => SpecPickles = d.pickles,
     ids       |-> (Accepted /\ d.ok = 1 /\ d.compiled = 1 => CompileFrom(SpecDoc, d.uri, NidAfter(vPs)).nid = d.nid_after)
                   /\ (~Accepted \/ d.compiled = 0 => NidAfter(vPs) = d.nid_after) ]
(***************************************************************************)
(* The property predicates of Props.tla, evaluated on what the             *)
(* IMPLEMENTATION produced for this input (not on the specification's      *)
(* values): every recorded execution must itself have the properties.      *)
(***************************************************************************)
ImplProps ==
   LET d == Docs[vTid]  ok == d.ok = 1  pk == ok /\ d.compiled = 1  dk == DialectInForce(d.lines, d.dialect)
       ix == Index(d.ast)  eps == EPs(d.ast, d.uri)
       \* predicates that index the source by recorded line numbers are only evaluated when those numbers exist (otherwise FALSE, never a crash)
       safe == /\ P_C03_Within(d.lines, d.ast, ix)
               /\ \A j \in 1..Len(d.toks) : d.toks[j].line \in 1..(Len(d.lines) + 1) /\ (d.toks[j].type # "EOF" => d.toks[j].line <= Len(d.lines))
               /\ \A n \in SeqToSet(ix.titled) : \E j \in 1..Len(d.toks) : d.toks[j].line = n.line IN
   [ c01_outcome  |-> P_C01_Outcome(d.errs, CapOf(d.mode)) /\ (ok <=> d.errs = <<>>),
     c02_derivation |-> ok => P_C02_Derivation(d.toks, d.events),
     c02_tagowner |-> ok => P_C02_TagOwner(d.ast, ix),
     c03_once     |-> ok => P_C03_Once(d.toks, d.ast, ix),
     c03_order    |-> ok => P_C03_Order(d.ast, ix),
     c03_text     |-> ok => (safe /\ P_C03_Text(d.lines, d.ast, ix)),
     c03_desc     |-> ok => (safe /\ P_C03_Desc(d.lines, d.toks, d.ast, ix)),
     c03_within   |-> ok => P_C03_Within(d.lines, d.ast, ix),
     c04_readback |-> ok => (safe /\ P_C04_ReadBack(d.lines, d.ast, ix)),
     c04_errloc   |-> P_C04_ErrLoc(d.lines, d.errs),
     c05_doc      |-> ok => (safe /\ P_C05_Doc(d.lines, d.ast, dk, ix)),
     c06          |-> pk => P_C06(d.pickles, eps),
     c07          |-> pk => P_C07(d.pickles, eps),
     c08          |-> pk => P_C08(d.pickles, eps),
     c09          |-> pk => P_C09(d.pickles, eps),
     c10          |-> pk => P_C10(d.pickles, eps),
     c11_canon    |-> pk => P_C11_Canonical(d.ast, d.pickles, d.nid0),
     c11_refs     |-> pk => P_C11_Refs(d.ast, d.pickles, ix),
     c12_cells    |-> ok => (safe /\ P_C12_Cells(d.lines, d.ast, ix)),
     c12_rect     |-> ok => P_C12_Rect(d.ast, ix),
     c13          |-> ok => (safe /\ P_C13_DocStrings(d.lines, d.toks, d.ast, ix)),
     c14_once     |-> P_C14_Once(d.errs),
     \* (evaluated where the harness asks for it: it needs a second run of the specification for the matcher states)
     c14_iff      |-> d.iff = 1 => P_C14_Iff(d.lines, TLCEval(RunAll(d.lines, d.dialect, d.nid0, CapOf(d.mode))), d.ok = 0),
     c18_accepted |-> ok => P_C18_Accepted(d.lines, d.toks),
     c18_partition|-> P_C18_Partition(d.lines, d.toks, d.errs, CapOf(d.mode)) ]
EndDetail(v) ==
   LET d == Docs[vTid] IN
   [ outcome |-> IF v.outcome THEN <<>> ELSE <<[spec_accepts |-> Accepted, impl_ok |-> d.ok, exc |-> d.exc]>>,
     errors  |-> IF v.errors THEN <<>> ELSE <<[spec |-> vPs.bs.errs, impl |-> d.errs]>>,
     ast     |-> IF v.ast THEN <<>> ELSE <<[spec |-> SpecDoc]>>,
     pickles |-> IF v.pickles THEN <<>> ELSE <<[spec |-> SpecPickles]>>,
     ids     |-> IF v.ids THEN <<>> ELSE <<[spec |-> NidAfter(vPs), impl |-> d.nid_after]>> ]
\* evaluated as a state constraint so that every finished trace reports exactly once
Report == Finished => LET v == EndVerdicts IN PrintT(<<"DONE", ToJson([tid |-> vTid, name |-> Docs[vTid].name, v |-> v, p |-> ImplProps, detail |-> EndDetail(v)])>>)

Conf_Steps == vBad = <<>>
Conf_End == Finished => \A f \in DOMAIN EndVerdicts : EndVerdicts[f]
=============================================================================
