------------------------------- MODULE Compiler -------------------------------
(***************************************************************************)
(* The pickle compiler.                                                    *)
(*                                                                         *)
(* Operational part (shaped like pickles/compiler.py): a traversal of the  *)
(* feature's children that accumulates background steps (Kids), dispatches *)
(* scenarios to Plain or to the Examples/Rows loops, folds over steps      *)
(* carrying the last definite keyword type (StepsFold) and draws ids from  *)
(* the shared counter: the steps of a pickle, then the pickle.             *)
(* cs = [pickles, nid].                                                    *)
(*                                                                         *)
(* Declarative part (shaped like the property sentences): Units(doc) lists *)
(* (scenario, examples, row, enclosing rule) in document order; the        *)
(* expected steps/tags/types/names of each unit are given by comprehension *)
(* over the AST.  MC_Compile checks the two agree on every enumerated AST. *)
(***************************************************************************)
EXTENDS Interpolate

PickleTags(tags) == [j \in 1..Len(tags) |-> [astNodeId |-> tags[j].id, name |-> tags[j].name]]
ArgOf(step, hdr, vals) == IF step.arg = <<>> THEN <<>> ELSE LET a == step.arg[1] IN
   IF a.t = "DataTable" THEN << [t |-> "DataTable", rows |-> [r \in 1..Len(a.rows) |-> [c \in 1..Len(a.rows[r].cells) |-> Interp(a.rows[r].cells[c].value, hdr, vals)]]] >>
   ELSE << [t |-> "DocString", content |-> Interp(a.content, hdr, vals), media |-> IF a.media = <<>> THEN <<>> ELSE <<Interp(a.media[1], hdr, vals)>>] >>
\* fold over steps: acc = [out, nid, last]
RECURSIVE StepsFold(_, _, _, _, _)
StepsFold(steps, acc, extra, hdr, vals) == IF steps = <<>> THEN acc ELSE
   LET st == Head(steps)
       ty == IF st.kwt = "Conjunction" THEN acc.last ELSE st.kwt
       ps == [id |-> acc.nid, astNodeIds |-> <<st.id>> \o extra, type |-> ty, text |-> Interp(st.text, hdr, vals), arg |-> ArgOf(st, hdr, vals)]
   IN StepsFold(Tail(steps), [out |-> Append(acc.out, ps), nid |-> acc.nid + 1, last |-> ty], extra, hdr, vals)
CellVals(row) == [c \in 1..Len(row.cells) |-> row.cells[c].value]
StartFold(nid) == [out |-> <<>>, nid |-> nid, last |-> "Unknown"]
Plain(cs, sc, tags, bg, lang, uri) ==
   LET all == IF sc.steps = <<>> THEN <<>> ELSE bg \o sc.steps
       f == StepsFold(all, StartFold(cs.nid), <<>>, <<>>, <<>>)
   IN [pickles |-> Append(cs.pickles, [id |-> f.nid, astNodeIds |-> <<sc.id>>, tags |-> PickleTags(tags \o sc.tags), name |-> sc.name, language |-> lang, steps |-> f.out, uri |-> uri]),
       nid |-> f.nid + 1]
RowPickle(cs, sc, ex, row, tags, bg, lang, uri) ==
   LET hdr == CellVals(ex.header[1])  vals == CellVals(row)
       b == IF sc.steps = <<>> THEN StartFold(cs.nid) ELSE StepsFold(bg, StartFold(cs.nid), <<>>, <<>>, <<>>)    \* background steps: not substituted
       f == StepsFold(sc.steps, b, <<row.id>>, hdr, vals)
   IN [pickles |-> Append(cs.pickles, [id |-> f.nid, astNodeIds |-> <<sc.id, row.id>>, tags |-> PickleTags(tags \o sc.tags \o ex.tags), name |-> Interp(sc.name, hdr, vals), language |-> lang, steps |-> f.out, uri |-> uri]),
       nid |-> f.nid + 1]
RECURSIVE Rows(_, _, _, _, _, _, _, _)
Rows(cs, sc, ex, rows, tags, bg, lang, uri) == IF rows = <<>> THEN cs ELSE Rows(RowPickle(cs, sc, ex, Head(rows), tags, bg, lang, uri), sc, ex, Tail(rows), tags, bg, lang, uri)
RECURSIVE Exs(_, _, _, _, _, _, _)
Exs(cs, sc, exs, tags, bg, lang, uri) == IF exs = <<>> THEN cs ELSE
   LET ex == Head(exs) IN Exs(IF ex.header = <<>> THEN cs ELSE Rows(cs, sc, ex, ex.body, tags, bg, lang, uri), sc, Tail(exs), tags, bg, lang, uri)
Scen(cs, sc, tags, bg, lang, uri) == IF sc.examples = <<>> THEN Plain(cs, sc, tags, bg, lang, uri) ELSE Exs(cs, sc, sc.examples, tags, bg, lang, uri)
\* traversal: acc = [cs, bg]; a rule starts from a COPY of the feature's background steps and its additions die with it
RECURSIVE Kids(_, _, _, _, _)
Kids(acc, kids, tags, lang, uri) == IF kids = <<>> THEN acc ELSE
   LET kid == Head(kids) IN
   Kids( IF kid.t = "Background" THEN [acc EXCEPT !.bg = @ \o kid.steps]
         ELSE IF kid.t = "Scenario" THEN [acc EXCEPT !.cs = Scen(@, kid, tags, acc.bg, lang, uri)]
         ELSE [acc EXCEPT !.cs = Kids([cs |-> acc.cs, bg |-> acc.bg], kid.kids, tags \o kid.tags, lang, uri).cs],
         Tail(kids), tags, lang, uri)
CompileFrom(doc, uri, nid) == IF doc.feature = <<>> THEN [pickles |-> <<>>, nid |-> nid] ELSE
   LET f == doc.feature[1] IN Kids([cs |-> [pickles |-> <<>>, nid |-> nid], bg |-> <<>>], f.kids, f.tags, f.lang, uri).cs
Compile(doc, uri, nid) == CompileFrom(doc, uri, nid).pickles

(***************************************************************************)
(* Declarative reading of the same thing.                                  *)
(***************************************************************************)
\* the scenarios of a container with their enclosing rule (<<>> at feature level), in document order
ScenariosOf(f) == FlattenSeq([j \in 1..Len(f.kids) |->
      IF f.kids[j].t = "Scenario" THEN << [sc |-> f.kids[j], rule |-> <<>>] >>
      ELSE IF f.kids[j].t = "Rule" THEN LET r == f.kids[j] IN
           [m \in 1..Len(SelectSeq(r.kids, LAMBDA x : x.t = "Scenario")) |-> [sc |-> SelectSeq(r.kids, LAMBDA x : x.t = "Scenario")[m], rule |-> <<r>>]]
      ELSE <<>> ])
\* one unit per pickle: a plain scenario, or (outline, examples with a header, body row)
UnitsOf(su) == IF su.sc.examples = <<>> THEN << [sc |-> su.sc, rule |-> su.rule, ex |-> <<>>, row |-> <<>>] >>
               ELSE FlattenSeq([e \in 1..Len(su.sc.examples) |-> LET ex == su.sc.examples[e] IN
                      IF ex.header = <<>> THEN <<>> ELSE [b \in 1..Len(ex.body) |-> [sc |-> su.sc, rule |-> su.rule, ex |-> <<ex>>, row |-> <<ex.body[b]>>]] ])
Units(doc) == IF doc.feature = <<>> THEN <<>> ELSE
              LET ss == ScenariosOf(doc.feature[1]) IN FlattenSeq([j \in 1..Len(ss) |-> UnitsOf(ss[j])])
BgSteps(container) == LET b == SelectSeq(container.kids, LAMBDA x : x.t = "Background") IN IF b = <<>> THEN <<>> ELSE b[1].steps
\* source steps of a unit: feature background, rule background, own -- none at all when the scenario has no steps
UnitBg(f, u) == IF u.sc.steps = <<>> THEN <<>> ELSE BgSteps(f) \o (IF u.rule = <<>> THEN <<>> ELSE BgSteps(u.rule[1]))
UnitSteps(f, u) == UnitBg(f, u) \o u.sc.steps
UnitTags(f, u) == f.tags \o (IF u.rule = <<>> THEN <<>> ELSE u.rule[1].tags) \o u.sc.tags \o (IF u.ex = <<>> THEN <<>> ELSE u.ex[1].tags)
\* type of the k-th step: its own category, or for a conjunction that of the nearest earlier non-conjunction, else Unknown
RECURSIVE TypeAt(_, _)
TypeAt(steps, k) == IF k = 0 THEN "Unknown" ELSE IF steps[k].kwt # "Conjunction" THEN steps[k].kwt ELSE TypeAt(steps, k - 1)
UnitHdr(u) == IF u.ex = <<>> THEN <<>> ELSE CellVals(u.ex[1].header[1])
UnitVals(u) == IF u.row = <<>> THEN <<>> ELSE CellVals(u.row[1])
ExpectedStepOf(f, u, k) == LET all == UnitSteps(f, u)  nb == Len(UnitBg(f, u))  st == all[k]
                               hdr == IF k <= nb THEN <<>> ELSE UnitHdr(u)   vals == IF k <= nb THEN <<>> ELSE UnitVals(u) IN
      [astNodeIds |-> <<st.id>> \o (IF k > nb /\ u.row # <<>> THEN <<u.row[1].id>> ELSE <<>>),
       type |-> TypeAt(all, k), text |-> InterpDecl(st.text, hdr, vals), arg |-> ArgOf(st, hdr, vals)]
ExpectedPickle(doc, uri, u) == LET f == doc.feature[1] IN
      [astNodeIds |-> <<u.sc.id>> \o (IF u.row = <<>> THEN <<>> ELSE <<u.row[1].id>>),
       tags |-> PickleTags(UnitTags(f, u)), name |-> InterpDecl(u.sc.name, UnitHdr(u), UnitVals(u)),
       language |-> f.lang, uri |-> uri,
       steps |-> [k \in 1..Len(UnitSteps(f, u)) |-> ExpectedStepOf(f, u, k)]]
\* ids: pickle steps before their pickle, pickles in order, densely from nid
RECURSIVE WithIds(_, _)
WithIds(eps, nid) == IF eps = <<>> THEN <<>> ELSE
      LET p == Head(eps)  n == Len(p.steps) IN
      << [p EXCEPT !.steps = [k \in 1..n |-> p.steps[k] @@ [id |-> nid + k - 1]]] @@ [id |-> nid + n] >> \o WithIds(Tail(eps), nid + n + 1)
ExpectedPickles(doc, uri, nid) == LET us == Units(doc) IN WithIds([j \in 1..Len(us) |-> ExpectedPickle(doc, uri, us[j])], nid)
=============================================================================
