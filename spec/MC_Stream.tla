-------------------------------- MODULE MC_Stream --------------------------------
(***************************************************************************)
(* C17 / C11 histories on the specification: every sequence of at most     *)
(* MaxSources sources from a pool (accepted, rejected early / late, with   *)
(* outlines, tags, ...) through ONE stream, for each of the 8 option sets. *)
(* The print options are STATE of the stream object: between two sources   *)
(* they may be changed (SetOptions, at most MaxChanges times per stream);  *)
(* each source is processed under the options in force when it is fed.     *)
(* Every reached stream is printed with the predicted envelopes for replay *)
(* through the real GherkinEvents.                                         *)
(***************************************************************************)
EXTENDS Stream
CONSTANTS MaxSources, MaxChanges
Pool == JsonDeserialize("pool.json")
VARIABLES vSeq, vSegs, vNid, vOpts, vOptSeq, vChanges
mvars == <<vSeq, vSegs, vNid, vOpts, vOptSeq, vChanges, vLines, vLine, vPs>>
Init == /\ vSeq = <<>> /\ vSegs = <<>> /\ vNid = 0 /\ vOptSeq = <<>> /\ vChanges = 0
        /\ vOpts \in [source : BOOLEAN, ast : BOOLEAN, pickles : BOOLEAN]
        /\ vLines = <<>> /\ vLine = 0 /\ vPs = 0
Feed(i) == /\ Len(vSeq) < MaxSources
           /\ LET r == Process(Pool[i], vNid, vOpts) IN
              /\ vSegs' = Append(vSegs, r.out) /\ vNid' = r.nid
           /\ vSeq' = Append(vSeq, i) /\ vOptSeq' = Append(vOptSeq, vOpts)
           /\ UNCHANGED <<vOpts, vChanges, vLines, vLine, vPs>>
\* the caller assigns other options between two sources
SetOptions(o) == /\ vChanges < MaxChanges /\ Len(vSeq) > 0 /\ Len(vSeq) < MaxSources /\ Len(vOptSeq) = Len(vSeq) /\ o # vOpts
                 /\ vOpts' = o /\ vChanges' = vChanges + 1
                 /\ UNCHANGED <<vSeq, vSegs, vNid, vOptSeq, vLines, vLine, vPs>>
Next == (\E i \in 1..Len(Pool) : Feed(i)) \/ (\E o \in [source : BOOLEAN, ast : BOOLEAN, pickles : BOOLEAN] : SetOptions(o))
Spec == Init /\ [][Next]_mvars

AcceptedSeg(seg) == \A j \in 1..Len(seg) : seg[j].k # "error"
Inv_C17_Order == \A j \in 1..Len(vSegs) : P_C17_Order(vSegs[j])
Inv_C17_Options == \A j \in 1..Len(vSegs) : P_C17_Options(vSegs[j], vOptSeq[j], AcceptedSeg(vSegs[j]))
Inv_C17_Uri == \A j \in 1..Len(vSegs) : P_C17_Uri(vSegs[j], Pool[vSeq[j]])
\* a rejected source yields only parseError envelopes, one per error, and at least one
Inv_C17_Rejected == \A j \in 1..Len(vSegs) : LET ps == ParseAll(SplitLines(Pool[vSeq[j]].data), "en", 0, CollectCap) IN
                       Rejected(ps) => Len(vSegs[j]) = Len(ps.bs.errs) /\ \A m \in 1..Len(vSegs[j]) : vSegs[j][m].k = "error"
Inv_C11_Unique == P_C11_StreamUnique(vSegs)
\* with everything printed and no rejected source the ids of the whole stream are 0, 1, 2, ... in emission order
Inv_C11_Dense == ((\A j \in 1..Len(vSegs) : vOptSeq[j].ast /\ vOptSeq[j].pickles) /\ \A j \in 1..Len(vSegs) : AcceptedSeg(vSegs[j])) =>
                    LET ids == FlattenSeq([j \in 1..Len(vSegs) |-> IdsOfSeg(vSegs[j])]) IN ids = [j \in 1..Len(ids) |-> j - 1]
\* the counter never goes back; each source's envelopes depend only on the source and the counter at its start
Act_Monotone == [][vNid' >= vNid]_mvars
\* (a state right after SetOptions prints nothing new: the stream so far was printed before)
Emit == (Len(vOptSeq) = Len(vSeq) /\ (vSeq = <<>> \/ vOptSeq[Len(vOptSeq)] = vOpts)) => PrintT(<<"STREAM", ToJson([seq |-> vSeq, opts |-> vOpts, optseq |-> vOptSeq, segs |-> vSegs, nid |-> vNid])>>)
=============================================================================
