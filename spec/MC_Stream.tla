-------------------------------- MODULE MC_Stream --------------------------------
(***************************************************************************)
(* C17 / C11 histories on the specification: every sequence of at most     *)
(* MaxSources sources from a pool (accepted, rejected early / late, with   *)
(* outlines, tags, ...) through ONE stream, for each of the 8 option sets. *)
(* Every reached stream is printed with the predicted envelopes for replay *)
(* through the real GherkinEvents.                                         *)
(***************************************************************************)
EXTENDS Stream
CONSTANT MaxSources
Pool == JsonDeserialize("pool.json")
VARIABLES vSeq, vSegs, vNid, vOpts
mvars == <<vSeq, vSegs, vNid, vOpts, vLines, vLine, vPs>>
Init == /\ vSeq = <<>> /\ vSegs = <<>> /\ vNid = 0
        /\ vOpts \in [source : BOOLEAN, ast : BOOLEAN, pickles : BOOLEAN]
        /\ vLines = <<>> /\ vLine = 0 /\ vPs = 0
Feed(i) == /\ Len(vSeq) < MaxSources
           /\ LET r == Process(Pool[i], vNid, vOpts) IN
              /\ vSegs' = Append(vSegs, r.out) /\ vNid' = r.nid
           /\ vSeq' = Append(vSeq, i)
           /\ UNCHANGED <<vOpts, vLines, vLine, vPs>>
Next == \E i \in 1..Len(Pool) : Feed(i)
Spec == Init /\ [][Next]_mvars

AcceptedSeg(seg) == \A j \in 1..Len(seg) : seg[j].k # "error"
Inv_C17_Order == \A j \in 1..Len(vSegs) : P_C17_Order(vSegs[j])
Inv_C17_Options == \A j \in 1..Len(vSegs) : P_C17_Options(vSegs[j], vOpts, AcceptedSeg(vSegs[j]))
Inv_C17_Uri == \A j \in 1..Len(vSegs) : P_C17_Uri(vSegs[j], Pool[vSeq[j]])
\* a rejected source yields only parseError envelopes, one per error, and at least one
Inv_C17_Rejected == \A j \in 1..Len(vSegs) : LET ps == ParseAll(SplitLines(Pool[vSeq[j]].data), "en", 0, CollectCap) IN
                       Rejected(ps) => Len(vSegs[j]) = Len(ps.bs.errs) /\ \A m \in 1..Len(vSegs[j]) : vSegs[j][m].k = "error"
Inv_C11_Unique == P_C11_StreamUnique(vSegs)
\* with everything printed and no rejected source the ids of the whole stream are 0, 1, 2, ... in emission order
Inv_C11_Dense == (vOpts.ast /\ vOpts.pickles /\ \A j \in 1..Len(vSegs) : AcceptedSeg(vSegs[j])) =>
                    LET ids == FlattenSeq([j \in 1..Len(vSegs) |-> IdsOfSeg(vSegs[j])]) IN ids = [j \in 1..Len(ids) |-> j - 1]
\* the counter never goes back; each source's envelopes depend only on the source and the counter at its start
Act_Monotone == [][vNid' >= vNid]_mvars
Emit == PrintT(<<"STREAM", ToJson([seq |-> vSeq, opts |-> vOpts, segs |-> vSegs, nid |-> vNid])>>)
=============================================================================
