------------------------------ MODULE MC_Language ------------------------------
(***************************************************************************)
(* C02, first sentence, decided EXACTLY (for token sequences of every      *)
(* length): the ordered, hinted parser table accepts a sequence of line    *)
(* kinds iff it is a sentence of the grammar, and reports its first        *)
(* unexpected line exactly where the sequence stops being a viable prefix. *)
(*                                                                         *)
(* Product of                                                              *)
(*  - the PARSER: position vPos in the derived table, kinds read by the    *)
(*    rule of Grammar!Reads, look-ahead replaced by a PROMISE about the    *)
(*    next line that is not a tag/comment/blank line, which the following  *)
(*    kinds must honour (faithful: kinds are matched statelessly during    *)
(*    look-ahead and skip tokens only loop);                               *)
(*  - the GRAMMAR as a nondeterministic position automaton: the SET vS of  *)
(*    positions reachable on the same kinds by RawSucc (no order, no       *)
(*    hints, no productions), with comments and blank lines allowed        *)
(*    wherever free text is not expected.                                  *)
(* History is not kept, so the reachable product is finite and TLC's       *)
(* exhaustive search covers inputs of all lengths.  The claim is about the *)
(* prefix up to and including the first fault (see DESIGN.md, C02/C14).    *)
(***************************************************************************)
EXTENDS Grammar
AllKinds == Kinds \cup {"#EOF"}
RAW == RawTable

VARIABLES vPos, vPromise, vS, vDead, vAcc
vars == <<vPos, vPromise, vS, vDead, vAcc>>
Init == vPos = <<>> /\ vPromise = <<"none", {}>> /\ vS = {<<>>} /\ vDead = FALSE /\ vAcc = "run"
SkipSet == {"#Empty", "#Comment", "#TagLine", "#Language"}

\* ---- grammar side
StepN(k) == NfaStep(vS, k)          \* Grammar!NfaStep: the subset construction, shared with the sentence test used on real documents
\* ---- parser side
ExpP == {Table[vPos][j].tok : j \in 1..Len(Table[vPos])}
ReadP(k) == IF k \in ExpP THEN k ELSE IF k = "#Language" /\ "#Comment" \in ExpP THEN "#Comment"
            ELSE IF "#Other" \in ExpP /\ k # "#EOF" THEN "#Other" ELSE k
HintsAt(r) == {Table[vPos][j].la : j \in {x \in 1..Len(Table[vPos]) : Table[vPos][x].tok = r}} \ {NoHint}
\* is kind k consistent with the outstanding promise <<guess, hints that were tried>>?
PromiseOK(k) ==
   IF vPromise[1] = "none" \/ k \in SkipSet THEN TRUE
   ELSE IF vPromise[1] = "E" THEN k = "#ExamplesLine"
   ELSE IF vPromise[1] = "S" THEN k = "#ScenarioLine"
   ELSE (1 \in vPromise[2] => k # "#ExamplesLine") /\ (0 \in vPromise[2] => k # "#ScenarioLine")
Feed(k) ==
  /\ vAcc = "run" /\ PromiseOK(k)
  /\ LET r == ReadP(k)
         hs == HintsAt(r)
         newS == StepN(k)
     IN
     IF r \notin ExpP THEN       \* the parser reports an unexpected line: the grammar must have no continuation either
          /\ vDead' = (newS # {}) /\ vPos' = vPos /\ vS' = vS /\ vAcc' = "rejected"
          /\ vPromise' = IF k \in SkipSet THEN vPromise ELSE <<"none", {}>>
     ELSE
       \E g \in (IF hs = {} THEN {"-"} ELSE ({"N"} \cup (IF 1 \in hs THEN {"E"} ELSE {}) \cup (IF 0 \in hs THEN {"S"} ELSE {}))) :
          LET wantLa == IF g = "E" THEN 1 ELSE IF g = "S" THEN 0 ELSE NoHint
              idx == CHOOSE j \in 1..Len(Table[vPos]) : Table[vPos][j].tok = r /\ Table[vPos][j].la = wantLa
          IN /\ vPos' = Table[vPos][idx].target
             /\ vS' = newS /\ vDead' = (newS = {})
             /\ vPromise' = IF hs # {} THEN <<g, hs>> ELSE IF k \in SkipSet THEN vPromise ELSE <<"none", {}>>
             /\ vAcc' = IF k = "#EOF" THEN "accepted" ELSE vAcc
Next == \E k \in AllKinds : Feed(k)
Spec == Init /\ [][Next]_vars

\* the parser rejects a line iff the grammar has no continuation for it; accepts it iff the grammar has one
Inv_NoDisagreement == ~vDead
\* the parser's position is one of the grammar's positions
Inv_PosInNFA == vAcc = "run" => vPos \in vS
\* the parser accepts at end of file only complete sentences
Inv_AcceptsSentences == vAcc = "accepted" => \E p \in vS : IsEnd(p)
=============================================================================
