SPECIFICATION Spec
CONSTANT MaxLines = 3
CONSTANT Alphabet <- Kinds
CONSTANT Prefix <- NoPrefix
CONSTANT MaxErrs = 1
CONSTRAINT Constraint
INVARIANT Inv_StackIsPath
INVARIANT Inv_Fifo
INVARIANT Inv_Partition
INVARIANT Inv_Accepted
INVARIANT Inv_Linear
CHECK_DEADLOCK FALSE
PROPERTY Prop_AppendOnly
PROPERTY Prop_ScannerForward
PROPERTY Prop_LookAheadPure
PROPERTY Prop_Requeue
PROPERTY Prop_ErrorStays
PROPERTY Prop_MoveOnlyOnDelivery
PROPERTY Prop_DoneFinal
