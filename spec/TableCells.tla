------------------------------ MODULE TableCells ------------------------------
(***************************************************************************)
(* Splitting a table row into cells.                                       *)
(*                                                                         *)
(* Two definitions of the same thing:                                      *)
(*  - operational: SplitCells walks the row one character at a time with   *)
(*    the registers the implementation keeps (cell so far, start column,   *)
(*    "still before the first pipe");                                      *)
(*  - declarative: the cells are the texts between consecutive UNESCAPED   *)
(*    pipes, unescaped by the documented map, trimmed of blanks (not line  *)
(*    feeds); the column is that of the first non-blank character or of    *)
(*    the closing pipe.                                                    *)
(* MC_Cells checks with TLC that both agree on every row over the          *)
(* character classes the splitter distinguishes; either is then used as    *)
(* the oracle for GherkinLine.table_cells.                                 *)
(***************************************************************************)
EXTENDS Text

PIPE == 124
BSL == 92
LOWN == 110

\* ---------------------------------------------------------------- operational
RECURSIVE SplitRec(_, _, _, _, _, _)
SplitRec(row, k, startCol, cell, first, acc) ==
   IF k > Len(row) THEN acc                                    \* text after the last pipe is dropped
   ELSE IF row[k] = PIPE THEN
        SplitRec(row, k + 1, k + 1, <<>>, FALSE, IF first THEN acc ELSE Append(acc, [cell |-> cell, col |-> startCol]))
   ELSE IF row[k] = BSL THEN
        LET c == IF k + 1 <= Len(row) THEN <<row[k + 1]>> ELSE <<>> IN
        SplitRec(row, k + 2, startCol,
                 cell \o (IF c = <<LOWN>> THEN <<LF>> ELSE IF c = <<PIPE>> \/ c = <<BSL>> THEN c ELSE <<BSL>> \o c),
                 first, acc)
   ELSE SplitRec(row, k + 1, startCol, Append(cell, row[k]), first, acc)
SplitCells(row) == SplitRec(row, 1, 1, <<>>, TRUE, <<>>)

\* cells of a physical line: [col, text]; columns are 1-based positions in the line
CellsOf(l) == LET raw == SplitCells(Trim(l)) IN
   [j \in 1..Len(raw) |-> LET c == raw[j].cell  lead == LeadB(c, 1) IN
        [col |-> raw[j].col + Indent(l) + lead, text |-> TrimBlanks(c)] ]

\* ---------------------------------------------------------------- declarative
\* positions of the pipes that are not the second character of a backslash pair
RECURSIVE UnescPipes(_, _)
UnescPipes(row, k) == IF k > Len(row) THEN <<>>
                      ELSE IF row[k] = BSL THEN UnescPipes(row, k + 2)
                      ELSE IF row[k] = PIPE THEN <<k>> \o UnescPipes(row, k + 1)
                      ELSE UnescPipes(row, k + 1)
\* the documented escapes: \n -> LF, \| -> |, \\ -> \ ; any other pair (and a final lone backslash) stays as written
RECURSIVE Unescape(_)
Unescape(s) == IF s = <<>> THEN <<>>
               ELSE IF s[1] # BSL THEN <<s[1]>> \o Unescape(Tail(s))
               ELSE IF Len(s) = 1 THEN <<BSL>>
               ELSE IF s[2] = LOWN THEN <<LF>> \o Unescape(From(s, 3))
               ELSE IF s[2] \in {PIPE, BSL} THEN <<s[2]>> \o Unescape(From(s, 3))
               ELSE <<BSL, s[2]>> \o Unescape(From(s, 3))
CellsDecl(l) == LET row == Trim(l)  ps == UnescPipes(row, 1) IN
   [j \in 1..(IF ps = <<>> THEN 0 ELSE Len(ps) - 1) |->
        LET rawc == SubSeq(row, ps[j] + 1, ps[j + 1] - 1)
            lead == LeadB(rawc, 1)                         \* blanks written after the opening pipe
        IN [col |-> Indent(l) + ps[j] + 1 + lead, text |-> TrimBlanks(Unescape(rawc))] ]

\* ---------------------------------------------------------------- round trip
\* how to write a cell text so that it is read back unchanged
RECURSIVE WriteCell(_)
WriteCell(t) == IF t = <<>> THEN <<>>
                ELSE (IF t[1] = LF THEN <<BSL, LOWN>> ELSE IF t[1] = PIPE THEN <<BSL, PIPE>> ELSE IF t[1] = BSL THEN <<BSL, BSL>> ELSE <<t[1]>>)
                     \o WriteCell(Tail(t))
NoBlankEnds(t) == t = <<>> \/ (~IsBlankNoLf(t[1]) /\ ~IsBlankNoLf(t[Len(t)]))
=============================================================================
