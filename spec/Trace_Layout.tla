------------------------------ MODULE Trace_Layout ------------------------------
(***************************************************************************)
(* C16 on recorded results of the IMPLEMENTATION.  pairs.json: for an      *)
(* original document (lines, the implementation's result) a list of        *)
(* transformed versions, each with the transformation descriptor, the      *)
(* transformed lines as the harness wrote them and the implementation's    *)
(* result on them.  TLC checks, with the definitions of Layout.tla,        *)
(*   (1) the harness transformed the text as the specification defines,    *)
(*   (2) the application is admissible (on the specification's reading of  *)
(*       the original),                                                    *)
(*   (3) result(transformed) = Adjust(result(original)).                   *)
(***************************************************************************)
EXTENDS Layout
Pairs == JsonDeserialize("pairs.json")
VARIABLES vPid, vSeen
Init == vPid \in 1..Len(Pairs) /\ vSeen = FALSE /\ vLines = <<>> /\ vLine = 0 /\ vPs = 0
Next == ~vSeen /\ vSeen' = TRUE /\ UNCHANGED <<vPid, vLines, vLine, vPs>>
Spec == Init /\ [][Next]_<<vPid, vSeen, vLines, vLine, vPs>>
Verdicts == LET p == Pairs[vPid]  run == TLCEval(RunAll(p.lines, p.dialect, 0, CollectCap)) IN
   [j \in 1..Len(p.cases) |-> LET c == p.cases[j] IN
      IF c.lines # ApplyT(p.lines, c.tr) THEN "harness-transformation"
      ELSE IF ~Admissible(p.lines, run, c.tr) THEN "not-admissible"
      ELSE IF ~Related(Adjust(p.result, c.tr), c.result, c.tr) THEN "relation"
      ELSE "ok"]
Report == vSeen => PrintT(<<"LPAIR", ToJson([pid |-> vPid, v |-> Verdicts])>>)
=============================================================================
