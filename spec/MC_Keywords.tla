------------------------------ MODULE MC_Keywords ------------------------------
(***************************************************************************)
(* C05 on the specification's matcher with the REAL dialect table (all     *)
(* dialects, all listed keywords): a line written with keyword number vK   *)
(* of role vRole of dialect vFrom is matched in dialect vIn.               *)
(*  vIn = vFrom : completeness -- it is recognised in its role, reports    *)
(*                the first listed keyword that prefixes the line, and     *)
(*                (steps) the keyword type of that keyword's category;     *)
(*  any vIn     : soundness -- whatever keyword token it is recognised as, *)
(*                a keyword LISTED for vIn in that role prefixes the line  *)
(*                (so words that are keywords only elsewhere are text).    *)
(***************************************************************************)
EXTENDS Lexer, Data
CONSTANT Foreign    \* the dialects vIn ranges over besides vFrom itself
Roles == <<"feature", "rule", "background", "scenario", "scenarioOutline", "examples", "given", "when", "then", "and", "but">>
TitleRoles == {"feature", "rule", "background", "scenario", "scenarioOutline", "examples"}
TokOfRole(r) == CASE r = "feature" -> "#FeatureLine" [] r = "rule" -> "#RuleLine" [] r = "background" -> "#BackgroundLine"
                  [] r \in {"scenario", "scenarioOutline"} -> "#ScenarioLine" [] r = "examples" -> "#ExamplesLine" [] OTHER -> "#StepLine"
TypeOfRole(r) == SubSeq(TokOfRole(r), 2, Len(TokOfRole(r)))
ListOf(D, r) == CASE r = "feature" -> D.feature [] r = "rule" -> D.rule [] r = "background" -> D.background [] r = "scenario" -> D.scenario
                  [] r = "scenarioOutline" -> D.scenarioOutline [] r = "examples" -> D.examples [] r = "given" -> D.given [] r = "when" -> D.when
                  [] r = "then" -> D.then [] r = "and" -> D.and [] r = "but" -> D.but
VARIABLES vFrom, vIn, vRole, vK, vSeen
kvars == <<vFrom, vIn, vRole, vK, vSeen>>
Init == /\ vFrom \in DOMAIN Dialects /\ vRole \in {Roles[j] : j \in 1..Len(Roles)}
        /\ vK \in 1..Len(ListOf(Dialects[vFrom], vRole))
        /\ vIn \in {vFrom} \cup Foreign
        /\ vSeen = FALSE
Next == ~vSeen /\ vSeen' = TRUE /\ UNCHANGED <<vFrom, vIn, vRole, vK>>
Spec == Init /\ [][Next]_kvars
Kw == ListOf(Dialects[vFrom], vRole)[vK]
\* the test line: two blanks, the keyword, ':' for title roles, a name
TestLine == <<32, 32>> \o Kw \o (IF vRole \in TitleRoles THEN <<COLON>> ELSE <<>>) \o <<120, 121, LF>>
Ms0 == InitMatcher(vIn)
DIn == Dialects[vIn]
KeywordToks == {"#FeatureLine", "#RuleLine", "#BackgroundLine", "#ScenarioLine", "#ExamplesLine", "#StepLine"}
ListsOfTok(D, t) == CASE t = "#FeatureLine" -> D.feature [] t = "#RuleLine" -> D.rule [] t = "#BackgroundLine" -> D.background
                      [] t = "#ScenarioLine" -> D.scenario \o D.scenarioOutline [] t = "#ExamplesLine" -> D.examples [] OTHER -> StepKws(D)
Suffix(t) == IF t = "#StepLine" THEN <<>> ELSE <<COLON>>
Inv_Complete == (vSeen /\ vIn = vFrom) =>
   LET r == Match(TokOfRole(vRole), TestLine, Ms0, DIn)
       listed == ListsOfTok(DIn, TokOfRole(vRole))
       first == FirstKw(LTrim(TestLine), IF vRole \in {"scenario", "scenarioOutline"} /\ FirstKw(LTrim(TestLine), DIn.scenario, <<COLON>>) # <<>> THEN DIn.scenario ELSE listed, Suffix(TokOfRole(vRole))) IN
   /\ r.ok /\ r.type = TypeOfRole(vRole) /\ r.col = 3
   /\ first # <<>> /\ r.kw = first[1] /\ StartsWith(LTrim(TestLine), r.kw)
   /\ (vRole \notin TitleRoles => r.kwt = KwType(DIn, r.kw) /\ r.text = Trim(From(LTrim(TestLine), Len(r.kw) + 1)))
   /\ (vRole \in TitleRoles => r.text = Trim(From(LTrim(TestLine), Len(r.kw) + 2)))
Inv_Sound == vSeen => \A t \in KeywordToks :
   LET r == Match(t, TestLine, Ms0, DIn) IN
   r.ok => /\ InSeq(r.kw, ListsOfTok(DIn, t))
           /\ StartsWith(LTrim(TestLine), r.kw \o Suffix(t))
\* keyword types: only the four categories or Unknown; Unknown exactly for keywords listed more than once
Inv_Types == (vSeen /\ vIn = vFrom /\ vRole \notin TitleRoles) =>
   LET ty == KwType(DIn, Kw)  n == Count(Kw, DIn.given) + Count(Kw, DIn.when) + Count(Kw, DIn.then) + Count(Kw, DIn.and \o DIn.but) IN
   /\ ty \in {"Context", "Action", "Outcome", "Conjunction", "Unknown"}
   /\ (ty = "Unknown" <=> n > 1)
   /\ (n = 1 => ty = (CASE vRole = "given" -> "Context" [] vRole = "when" -> "Action" [] vRole = "then" -> "Outcome" [] OTHER -> "Conjunction"))
=============================================================================
