SPECIFICATION Spec
CONSTANT MaxLines = 4
CONSTANT Mode = "collect"
CONSTANT MaxErrs = 2
CONSTANT PrefixIdx <- NoPrefixIdx
CONSTRAINT Constraint
CHECK_DEADLOCK FALSE
