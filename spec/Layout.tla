--------------------------------- MODULE Layout ---------------------------------
(***************************************************************************)
(* C16: layout transformations of a document and the relation each must    *)
(* induce on the result (error list, AST, pickles).                        *)
(*                                                                         *)
(* A transformation is a record tr = [t, i, n]:                            *)
(*   "crlf"      every line feed becomes CR LF                 (unchanged) *)
(*   "noeol"     the final line break is dropped               (unchanged) *)
(*   "trail"     n blanks (tr.c = code point) are appended to line i,      *)
(*               before its line ending                        (unchanged) *)
(*   "indent"    lines i..(i+tr.k) get n more leading blanks; k > 0 only   *)
(*               for a doc string moved as one block     (columns + n)     *)
(*   "blank"     a blank line is inserted before line i  (later lines + 1) *)
(*   "comment"   a comment line is inserted before line i                  *)
(*                                     (later lines + 1, comment added)    *)
(* ApplyT gives the transformed lines, Admissible says where the property  *)
(* allows the transformation (decided on the specification's own reading   *)
(* of the original: token types and parser positions), Adjust the expected *)
(* result.  MC_Layout checks Result(ApplyT(doc)) = Adjust(Result(doc)) on  *)
(* the specification; Trace_Layout checks it on recorded results of the    *)
(* implementation.                                                         *)
(***************************************************************************)
EXTENDS Props

\* ---------------------------------------------------------------- transformations on lines
HasLf(l) == l # <<>> /\ l[Len(l)] = LF
Body(l) == IF HasLf(l) THEN (IF Len(l) >= 2 /\ l[Len(l) - 1] = CR THEN SubSeq(l, 1, Len(l) - 2) ELSE SubSeq(l, 1, Len(l) - 1)) ELSE l
Ending(l) == SubSeq(l, Len(Body(l)) + 1, Len(l))
Blanks(n, c) == [j \in 1..n |-> c]
CommentLine == <<32, 35, 32, 108, 97, 121, 111, 117, 116, LF>>          \* " # layout"
ApplyT(lines, tr) ==
   CASE tr.t = "crlf"   -> [j \in 1..Len(lines) |-> IF HasLf(lines[j]) THEN SubSeq(lines[j], 1, Len(lines[j]) - 1) \o <<CR, LF>> ELSE lines[j]]
     [] tr.t = "noeol"  -> IF lines[Len(lines)] = <<LF>> THEN SubSeq(lines, 1, Len(lines) - 1)       \* nothing remains of a final blank line
                           ELSE [j \in 1..Len(lines) |-> IF j = Len(lines) /\ HasLf(lines[j]) THEN SubSeq(lines[j], 1, Len(lines[j]) - 1) ELSE lines[j]]
     [] tr.t = "trail"  -> [j \in 1..Len(lines) |-> IF j = tr.i THEN Body(lines[j]) \o Blanks(tr.n, tr.c) \o Ending(lines[j]) ELSE lines[j]]
     [] tr.t = "indent" -> [j \in 1..Len(lines) |-> IF j >= tr.i /\ j <= tr.i + tr.k THEN Blanks(tr.n, tr.c) \o lines[j] ELSE lines[j]]
     [] tr.t = "blank"  -> SubSeq(lines, 1, tr.i - 1) \o <<<<LF>>>> \o SubSeq(lines, tr.i, Len(lines))
     [] tr.t = "comment" -> SubSeq(lines, 1, tr.i - 1) \o <<CommentLine>> \o SubSeq(lines, tr.i, Len(lines))

\* ---------------------------------------------------------------- where the property allows them
\* run = Gherkin!RunAll(lines, ...): delivered tokens and the parser position before every line
TokAt(run, i) == LET s == SelectSeq(run.toks, LAMBDA t : t.line = i) IN IF s = <<>> THEN <<>> ELSE <<s[1]>>
StructuralTypes == {"FeatureLine", "RuleLine", "BackgroundLine", "ScenarioLine", "ExamplesLine", "StepLine", "TagLine", "TableRow", "DocStringSeparator"}
IsStructural(run, i) == TokAt(run, i) # <<>> /\ TokAt(run, i)[1].type \in StructuralTypes
\* a line that was REPORTED as unexpected but is, by its own kind, a keyword / step / tag / row / delimiter line
StructuralKinds == {"#FeatureLine", "#RuleLine", "#BackgroundLine", "#ScenarioLine", "#ExamplesLine", "#StepLine", "#TagLine", "#TableRow", "#DocStringSeparator"}
IsRejectedStructural(lines, run, i) == /\ TokAt(run, i) = <<>> /\ i <= Len(run.sts) /\ i <= Len(lines)
                                       /\ KindOf(lines[i], run.sts[i].ms) \in StructuralKinds
\* an OPENING delimiter: no doc string is open before the line
IsOpening(run, i) == TokAt(run, i) # <<>> /\ TokAt(run, i)[1].type = "DocStringSeparator" /\ run.sts[i].ms.sep = <<>>
IsClosing(run, i) == TokAt(run, i) # <<>> /\ TokAt(run, i)[1].type = "DocStringSeparator" /\ run.sts[i].ms.sep # <<>>
\* the line closing the doc string opened at line i (0 when it is never closed)
RECURSIVE ClosingOf(_, _, _)
ClosingOf(run, lines, k) == IF k > Len(lines) THEN 0 ELSE IF IsClosing(run, k) THEN k ELSE ClosingOf(run, lines, k + 1)
\* a blank line at position i is read as an Empty token: outside descriptions and doc strings
BlankIsEmpty(run, i) == i <= Len(run.sts) /\ LET ts == ExpectedAt(Table[run.sts[i].st]) IN InSeq("#Empty", ts)
NoCrOutsideCrLf(lines) == \A j \in 1..Len(lines) : \A k \in 1..Len(lines[j]) : lines[j][k] = CR => (k = Len(lines[j]) - 1 /\ HasLf(lines[j]))
Admissible(lines, run, tr) ==
   CASE tr.t = "crlf"    -> \A j \in 1..Len(lines) : \A k \in 1..Len(lines[j]) : lines[j][k] # CR
     [] tr.t = "noeol"   -> lines # <<>> /\ HasLf(lines[Len(lines)])
     [] tr.t = "trail"   -> tr.i \in 1..Len(lines) /\ (IsStructural(run, tr.i) \/ IsRejectedStructural(lines, run, tr.i))
     [] tr.t = "indent"  -> /\ tr.i \in 1..Len(lines) /\ IsStructural(run, tr.i) /\ ~IsClosing(run, tr.i)
                            /\ (IF IsOpening(run, tr.i) THEN ClosingOf(run, lines, tr.i + 1) = tr.i + tr.k ELSE tr.k = 0)
     [] tr.t = "blank"   -> tr.i \in 1..Len(lines) /\ BlankIsEmpty(run, tr.i)
     [] tr.t = "comment" -> tr.i \in 1..Len(lines) /\ IsStructural(run, tr.i) /\ ~IsClosing(run, tr.i)

\* ---------------------------------------------------------------- the induced relation on results
MapTags(tags, L(_), C(_, _)) == [j \in 1..Len(tags) |-> [tags[j] EXCEPT !.line = L(tags[j].line), !.col = C(tags[j].line, tags[j].col)]]
MapRow(r, L(_), C(_, _)) == [r EXCEPT !.line = L(r.line), !.col = C(r.line, r.col), !.cells = [m \in 1..Len(r.cells) |-> [r.cells[m] EXCEPT !.col = C(r.line, r.cells[m].col)]]]
MapRows(rs, L(_), C(_, _)) == [j \in 1..Len(rs) |-> MapRow(rs[j], L, C)]
MapArg(a, L(_), C(_, _)) == IF a.t = "DataTable" THEN [a EXCEPT !.line = L(a.line), !.col = C(a.line, a.col), !.rows = MapRows(a.rows, L, C)]
                            ELSE [a EXCEPT !.line = L(a.line), !.col = C(a.line, a.col)]
MapStep(s, L(_), C(_, _)) == [s EXCEPT !.line = L(s.line), !.col = C(s.line, s.col), !.arg = [m \in 1..Len(s.arg) |-> MapArg(s.arg[m], L, C)]]
MapSteps(ss, L(_), C(_, _)) == [j \in 1..Len(ss) |-> MapStep(ss[j], L, C)]
MapExamples(e, L(_), C(_, _)) == [e EXCEPT !.line = L(e.line), !.col = C(e.line, e.col), !.tags = MapTags(e.tags, L, C), !.header = MapRows(e.header, L, C), !.body = MapRows(e.body, L, C)]
MapScenario(s, L(_), C(_, _)) == [s EXCEPT !.line = L(s.line), !.col = C(s.line, s.col), !.tags = MapTags(s.tags, L, C), !.steps = MapSteps(s.steps, L, C),
                                            !.examples = [j \in 1..Len(s.examples) |-> MapExamples(s.examples[j], L, C)]]
MapBackground(b, L(_), C(_, _)) == [b EXCEPT !.line = L(b.line), !.col = C(b.line, b.col), !.steps = MapSteps(b.steps, L, C)]
MapLeaf(k, L(_), C(_, _)) == IF k.t = "Background" THEN MapBackground(k, L, C) ELSE MapScenario(k, L, C)
MapKid(k, L(_), C(_, _)) == IF k.t = "Rule" THEN [k EXCEPT !.line = L(k.line), !.col = C(k.line, k.col), !.tags = MapTags(k.tags, L, C),
                                                            !.kids = [j \in 1..Len(k.kids) |-> MapLeaf(k.kids[j], L, C)]]
                            ELSE MapLeaf(k, L, C)
MapDoc(doc, L(_), C(_, _)) ==
   [feature |-> [j \in 1..Len(doc.feature) |-> LET f == doc.feature[j] IN
                    [f EXCEPT !.line = L(f.line), !.col = C(f.line, f.col), !.tags = MapTags(f.tags, L, C), !.kids = [m \in 1..Len(f.kids) |-> MapKid(f.kids[m], L, C)]]],
    comments |-> [j \in 1..Len(doc.comments) |-> [doc.comments[j] EXCEPT !.line = L(doc.comments[j].line)]]]
MapErrs(errs, L(_), C(_, _)) == [j \in 1..Len(errs) |-> [errs[j] EXCEPT !.line = L(errs[j].line), !.col = IF errs[j].col = 0 THEN 0 ELSE C(errs[j].line, errs[j].col)]]
InsertComment(cs, c) == SelectSeq(cs, LAMBDA x : x.line < c.line) \o <<c>> \o SelectSeq(cs, LAMBDA x : x.line > c.line)
\* res = [errs, ast : 0/1-seq, pickles]
Adjust(res, tr) ==
   LET L1(l) == IF tr.t \in {"blank", "comment"} /\ l >= tr.i THEN l + 1 ELSE l
       C1(l, c) == IF tr.t = "indent" /\ l >= tr.i /\ l <= tr.i + tr.k THEN c + tr.n ELSE c
       ast1 == [j \in 1..Len(res.ast) |-> MapDoc(res.ast[j], L1, C1)]
       ast2 == IF tr.t = "comment" THEN [j \in 1..Len(ast1) |-> [ast1[j] EXCEPT !.comments = InsertComment(@, [line |-> tr.i, col |-> 1, text |-> StripEol(CommentLine)])]] ELSE ast1
   IN [errs |-> MapErrs(res.errs, L1, C1), ast |-> ast2, pickles |-> res.pickles]
\* the relation between the transformed document's result r2 and the adjusted original result r1: equality, except that
\* dropping the final line break is only claimed to preserve the AST (and with it acceptance and the pickles)
Related(r1, r2, tr) == IF tr.t = "noeol" THEN r1.ast = r2.ast /\ r1.pickles = r2.pickles /\ (r1.errs = <<>> <=> r2.errs = <<>>) ELSE r1 = r2
=============================================================================
