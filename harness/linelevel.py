"""Exhaustive line-level instances: rows (MC_Cells) and tag lines (MC_Tags) enumerated by TLC, replayed on the real code."""
from __future__ import annotations
from concurrent.futures import ProcessPoolExecutor
from common import Scratch, run_tlc, MachineryError, CORES, uncp, import_gherkin

import_gherkin()
from gherkin.gherkin_line import GherkinLine  # noqa: E402
from gherkin.parser import Parser  # noqa: E402
from gherkin.errors import ParserException, CompositeParserException  # noqa: E402


def _tlc(module, tag, max_len, alpha, indent, invariants, timeout=3000):
    with Scratch(tag) as sc:
        cfg = (f"SPECIFICATION Spec\nCONSTANT MaxLen = {max_len}\nCONSTANT Alpha <- A_{tag}\nCONSTANT IndentCps <- I_{tag}\nCONSTRAINT Emit\nCHECK_DEADLOCK FALSE\n"
               + "".join(f"INVARIANT {i}\n" for i in invariants))
        src = open(sc.path(module + ".tla")).read()
        src = src.replace("=============================================================================",
                          f"A_{tag} == {{{', '.join(map(str, alpha))}}}\nI_{tag} == <<{', '.join(map(str, indent))}>>\n"
                          "=============================================================================")
        sc.write(module + ".tla", src)
        sc.write(module + "_run.cfg", cfg)
        res = run_tlc(sc, module, cfg=module + "_run.cfg", timeout=timeout, extra=["-continue"])
    if "Parsing or semantic analysis failed" in res.out or not res.finished or any("Invariant" not in e and "violated" not in e for e in res.errors):
        raise MachineryError(f"{module} did not complete:\n" + "\n".join(res.out.splitlines()[-40:]))
    return res


def _rows_chunk(args):
    rows, embed_every = args
    bad = []
    for n, r in enumerate(rows):
        line = uncp(r["line"])
        exp = [(c["col"], uncp(c["text"])) for c in r["cells"]]
        got = [(c["column"], c["text"]) for c in GherkinLine(line, 1).table_cells]
        if exp != got:
            bad.append(dict(line=line, spec=exp, impl=got, via="GherkinLine.table_cells",
                            field="count" if len(exp) != len(got) else "col" if [e[1] for e in exp] == [g[1] for g in got] else "text"))
            continue
        if embed_every and n % embed_every == 0:
            # through the whole parser, as a data table and as an examples table
            for doc, pick in (("Feature:\n Scenario:\n  Given x\n" + line + "\n", lambda d: d["feature"]["children"][0]["scenario"]["steps"][0]["dataTable"]["rows"][0]),
                              ("Feature:\n Scenario Outline:\n  Given x\n  Examples:\n" + line + "\n", lambda d: d["feature"]["children"][0]["scenario"]["examples"][0]["tableHeader"])):
                try:
                    d = Parser().parse(doc)
                    row = pick(d)
                    got2 = [(c["location"]["column"], c["value"]) for c in row["cells"]]
                    if got2 != exp or row["location"] != {"line": doc.count("\n"), "column": len(line) - len(line.lstrip()) + 1}:
                        bad.append(dict(line=line, spec=exp, impl=got2, via="Parser.parse", field="ast", doc=doc))
                except Exception as e:  # noqa: BLE001
                    bad.append(dict(line=line, spec=exp, impl=repr(e), via="Parser.parse", field="exception", doc=doc))
    return bad


def rows(max_len, alpha=(124, 92, 110, 32, 120), indent=(32, 32), embed_every=7, tag="cells"):
    inv = ["Inv_MachineIsOperational", "Inv_OperationalIsDeclarative", "Inv_RoundTrip", "Inv_ReadBack"]
    res = _tlc("MC_Cells", tag, max_len, alpha, indent, inv)
    rs = res.tuples("ROW")
    bad = []
    with ProcessPoolExecutor(CORES) as ex:
        for out in ex.map(_rows_chunk, [(rs[i::CORES], embed_every) for i in range(CORES)]):
            bad += out
    return rs, bad, res


def _tags_chunk(args):
    lines, embed_every = args
    bad = []
    for n, r in enumerate(lines):
        line = uncp(r["line"])
        exp = ("ok", [(c["col"], uncp(c["text"])) for c in r["items"]]) if r["ok"] else ("fault", r["col"])
        dev = ("ok", [(c["col"], uncp(c["text"])) for c in r["iitems"]]) if r["iok"] else ("fault", r["icol"])     # the recorded deviation
        try:
            got = ("ok", [(c["column"], c["text"]) for c in GherkinLine(line, 1).tags])
        except ParserException as e:
            got = ("fault", e.location.get("column"))
        except Exception as e:  # noqa: BLE001
            got = ("exception", type(e).__name__)
        if exp != got:
            import re
            in_class = bool(re.search(r"@\s+[^\s@#]", re.split(r"\s#", line.strip())[0]))
            cause = "tag-blank-after-at" if in_class and got == dev else "tags"      # on inputs of the class anything but the recorded deviation is new
            bad.append(dict(line=line, spec=exp, impl=got, recorded_deviation=dev, via="GherkinLine.tags", cause=cause))
            continue
        if embed_every and n % embed_every == 0:
            doc = "Feature:\n" + line + "\n Scenario:\n"
            try:
                d = Parser().parse(doc)
                got2 = ("ok", [(t["location"]["column"], t["name"]) for t in d["feature"]["children"][0]["scenario"]["tags"]])
                if any(t["location"]["line"] != 2 for t in d["feature"]["children"][0]["scenario"]["tags"]):
                    got2 = ("wrong line", got2)
            except CompositeParserException as e:
                first = e.errors[0]
                got2 = ("fault", first.location.get("column")) if "tag may not contain whitespace" in str(first) and first.location["line"] == 2 else ("other", str(first))
            except Exception as e:  # noqa: BLE001
                got2 = ("exception", type(e).__name__)
            if got2 != exp:
                bad.append(dict(line=line, spec=exp, impl=got2, via="Parser.parse", doc=doc, cause="tags"))
    return bad


def tags(max_len, alpha=(64, 32, 35, 120, 9), indent=(32,), embed_every=5, tag="tags"):
    res = _tlc("MC_Tags", tag, max_len, alpha, indent, ["Inv_ReadBack", "Inv_FaultColumn"])
    ls = res.tuples("TAGS")
    bad = []
    with ProcessPoolExecutor(CORES) as ex:
        for out in ex.map(_tags_chunk, [(ls[i::CORES], embed_every) for i in range(CORES)]):
            bad += out
    return ls, bad, res


if __name__ == "__main__":
    import sys, time
    t0 = time.time()
    rs, bad, res = rows(int(sys.argv[1]))
    print("rows", len(rs), "bad", len(bad), res.generated, res.distinct, res.invariant_violations, round(res.wall, 1), round(time.time() - t0, 1))
    print(bad[:2])
    t0 = time.time()
    ls, bad, res = tags(int(sys.argv[1]))
    print("tags", len(ls), "bad", len(bad), res.generated, res.distinct, res.invariant_violations, round(res.wall, 1), round(time.time() - t0, 1))
    print(bad[:2])
