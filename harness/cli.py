"""scripts/generate_events.py: every command line enumerated by MC_Cli.tla run as a real subprocess in a scratch directory holding exactly the model's files."""
from __future__ import annotations
import json, os, shutil, subprocess, sys, tempfile
from concurrent.futures import ThreadPoolExecutor
from common import Scratch, run_tlc, write_dialects, MachineryError, CORES, cp, PYROOT
import stream as S

POOL = [
    ("ok.feature", "Feature: a\n  Scenario: s\n    Given x\n"),
    ("outline.feature", "@f\nFeature: o\n  Scenario Outline: <h>\n    And <h>\n    Examples:\n      | h |\n      | 1 |\n      | 2 |\n"),
    ("bad.feature", "Feature: l\n  Scenario: s\n    Given x\n      | a |\n      | a | b |\n  @bad tag\n"),
    ("fr.feature", "# language: fr\nFonctionnalité: résumé\n  Scénario: t\n    Soit y \U0001f600\r\n"),
]


def _run(args):
    d, argv = args
    p = subprocess.run([sys.executable, os.path.join(PYROOT, "scripts", "generate_events.py"), *argv], capture_output=True, text=True, encoding="utf8", cwd=d, timeout=120,
                       env=dict(os.environ, PYTHONPATH=PYROOT, PYTHONDONTWRITEBYTECODE="1", PYTHONIOENCODING="utf8"))
    if p.returncode != 0:
        return {"exit": p.returncode, "stderr": p.stderr[-400:]}
    out = []
    lines = p.stdout.split("\n")
    if lines[-1] == "":
        lines.pop()          # (the text after the last line break; a line that is empty otherwise is reported as unprojectable)
    for l in lines:
        try:
            out.append(S.project_envelope(json.loads(l)))
        except Exception as x:  # noqa: BLE001
            out.append({"k": "unprojectable", "line": l[:200], "why": repr(x)[:200]})
    return out


def model_check_and_replay(max_args: int, timeout=1800):
    with Scratch("cli") as sc:
        write_dialects(sc, ["en", "fr"])
        sc.write_json("clipool.json", [dict(name=n, uri=cp(n), data=cp(d)) for n, d in POOL])
        sc.write("MC_Cli.cfg", f"SPECIFICATION Spec\nCONSTANT MaxArgs = {max_args}\nCONSTRAINT Emit\nINVARIANT Inv_FlagsAnywhere\nINVARIANT Inv_FileOrder\nINVARIANT Inv_OneStream\nCHECK_DEADLOCK FALSE\n")
        res = run_tlc(sc, "MC_Cli", timeout=timeout, extra=["-continue"])
    if "Parsing or semantic analysis failed" in res.out or not res.finished or any("Invariant" not in e and "violated" not in e for e in res.errors):
        raise MachineryError("MC_Cli did not complete:\n" + "\n".join(res.out.splitlines()[-40:]))
    cases = res.tuples("CLI")
    d = tempfile.mkdtemp(prefix="verif-cli-")
    bad = []
    try:
        for n, data in POOL:
            with open(os.path.join(d, n), "w", encoding="utf8", newline="") as fh:
                fh.write(data)
        with ThreadPoolExecutor(CORES) as ex:
            outs = list(ex.map(_run, [(d, c["argv"]) for c in cases]))
        for c, got in zip(cases, outs):
            want = [e for seg in c["segs"] for e in seg]
            if got != want:
                k = next((j for j, (a, b) in enumerate(zip(got, want)) if a != b), min(len(got), len(want))) if isinstance(got, list) else None
                bad.append(dict(argv=c["argv"], first_differing_line=k, spec=want[k] if k is not None and k < len(want) else len(want),
                                impl=(got[k] if k is not None and k < len(got) else len(got)) if isinstance(got, list) else got))
    finally:
        shutil.rmtree(d, ignore_errors=True)
    return cases, bad, res


if __name__ == "__main__":
    import time
    t0 = time.time()
    cases, bad, res = model_check_and_replay(int(sys.argv[1]) if len(sys.argv) > 1 else 2)
    print("cli", len(cases), len(bad), res.distinct, res.invariant_violations, round(time.time() - t0, 1), json.dumps(bad[:2])[:1500])
