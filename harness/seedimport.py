#!/venv/bin/python
"""Import seeded changes a sub-agent left in <worktree>/_seed/* into /verif/seeded/ (patch, demo, notes, meta skeleton)."""
import json, os, shutil, sys
wt, tag = sys.argv[1], sys.argv[2]
src = os.path.join(wt, "_seed")
for n in sorted(os.listdir(src)):
    d = os.path.join(src, n)
    if not os.path.isfile(os.path.join(d, "patch.diff")):
        continue
    dst = os.path.join("/verif/seeded", n)
    os.makedirs(dst, exist_ok=True)
    for f in ("patch.diff", "demo.py", "notes.md"):
        if os.path.exists(os.path.join(d, f)):
            shutil.copy(os.path.join(d, f), dst)
    prop = n.split("-")[0].upper()
    notes = open(os.path.join(dst, "notes.md")).read() if os.path.exists(os.path.join(dst, "notes.md")) else ""
    meta = {"property": prop, "checks": [prop], "origin": f"independent sub-agent {tag} (given only the property text and a scratch worktree)",
            "needs": " ".join(notes.split())[:600], "ran": "harness/seedtest.py " + n}
    if not os.path.exists(os.path.join(dst, "meta.json")):
        json.dump(meta, open(os.path.join(dst, "meta.json"), "w"), indent=1)
    print("imported", n)
