#!/venv/bin/python
"""Soak: many seeds of the generated / noisy / fuzz / multi-dialect sources through Trace_Pipeline, reporting ANY disagreement (whatever
property owns it).  Used to look for latent imprecision of the specification (a false alarm waiting for a seed) and for defects.
Usage: soak.py <first seed> <last seed> [n per seed]"""
import sys, os, json
sys.path.insert(0, os.path.dirname(os.path.abspath(__file__)))
import engines as E, pipeline as PL, attribute as AT, props_total as PT
from common import master_dialects, uncp

lo, hi = int(sys.argv[1]), int(sys.argv[2])
n = int(sys.argv[3]) if len(sys.argv) > 3 else 300
langs = sorted(master_dialects())
total = bad = 0
for seed in range(lo, hi + 1):
    srcs = E.src_generated(n, seed) + E.src_noisy(n, seed) + E.src_generated(n // 2, seed + 7919, langs) + PT.fuzz_sources(n // 2, seed)
    recs = E.record_all(srcs, modes=("collect", "stop"))
    results, res = PL.validate(recs, tag="soak")
    for tid, r in results.items():
        total += 1
        f = AT.trace_findings(r, recs[tid - 1])
        if f or recs[tid - 1]["exc"]:
            bad += 1
            print(json.dumps({"seed": seed, "name": recs[tid - 1]["name"], "exc": recs[tid - 1]["exc"], "findings": [(sorted(o), l) for o, l, _ in f],
                              "source": "".join(uncp(l) for l in recs[tid - 1]["lines"])})[:1500], flush=True)
    print(f"seed {seed}: {len(recs)} traces, cumulative disagreements {bad}/{total}", flush=True)
