"""C17 / C11: the stream API (GherkinEvents.enum and scripts/generate_events.py) recorded and validated by Trace_Stream.tla."""
from __future__ import annotations
import json, os, subprocess, sys, tempfile, shutil
from common import import_gherkin, Scratch, run_tlc, write_dialects, MachineryError, cp, CORES, PYROOT
import project as P

import_gherkin()
from gherkin.stream.gherkin_events import GherkinEvents  # noqa: E402

MEDIA = "text/x.cucumber.gherkin+plain"
ENUM_KEYS = {"keywordType", "type", "mediaType"}


def shape(v, key=None, parent=None):
    if v is None:
        return {"k": "null"}
    if isinstance(v, bool):
        return {"k": "bool"}
    if isinstance(v, int):
        return {"k": "int"}
    if isinstance(v, str):
        # vocabulary fields keep their value (source.mediaType, step.keywordType, pickleStep.type); docString.mediaType is free text
        if key in ("keywordType", "type") or (key == "mediaType" and parent == "source"):
            return {"k": "enum", "v": v}
        return {"k": "str"}
    if isinstance(v, list):
        items, seen = [], set()
        for x in v:
            s = shape(x, key, parent)
            h = json.dumps(s, sort_keys=True)
            if h not in seen:
                seen.add(h)
                items.append(s)
        return {"k": "list", "items": items}
    if isinstance(v, dict):
        if not v:
            return {"k": "emptyobj"}
        return {"k": "obj", "f": {k: shape(x, k, key) for k, x in v.items()}}
    return {"k": "other:" + type(v).__name__}


class _Err:
    def __init__(self, message, location):
        self.m, self.location = message, location

    def __str__(self):
        return self.m


def project_envelope(e):
    if "source" in e:
        s = e["source"]
        return dict(k="source", uri=cp(s["uri"]), data=cp(s["data"]))
    if "gherkinDocument" in e:
        d = e["gherkinDocument"]
        return dict(k="doc", uri=cp(d["uri"]), ast=P.document(d))
    if "pickle" in e:
        return dict(k="pickle", pickle=P.pickle(e["pickle"]))
    if "parseError" in e:
        pe = e["parseError"]
        return dict(k="error", uri=cp(pe["source"]["uri"]), err=P.error(_Err(pe["message"], pe["source"]["location"])))
    return dict(k="unknown")


def run_stream(sources: list[tuple[str, str]], opts: tuple[bool, bool, bool]):
    """The real GherkinEvents over the sources [(uri, data)]; -> per source: raw envelopes.
    opts: one option triple for the whole stream, or a list with one triple per source -- then the options of the ONE stream object are changed between
    sources (fields assigned in place, or a new Options object assigned, alternating)"""
    per_source = isinstance(opts, list)
    first = opts[0] if per_source and opts else (True, True, True) if per_source else opts
    # (the three options are documented in this order; both ways of writing them are used)
    ge = GherkinEvents(GherkinEvents.Options(print_source=first[0], print_ast=first[1], print_pickles=first[2]) if len(sources) % 2 else GherkinEvents.Options(first[0], first[1], first[2]))
    out = []
    for k, (uri, data) in enumerate(sources):
        if per_source and k > 0 and opts[k] != opts[k - 1]:
            if (k + len(sources)) % 2:
                ge.options.print_source, ge.options.print_ast, ge.options.print_pickles = opts[k]
            else:
                ge.options = GherkinEvents.Options(print_source=opts[k][0], print_ast=opts[k][1], print_pickles=opts[k][2])
        ev = {"source": {"uri": uri, "data": data, "mediaType": MEDIA}}
        try:
            envs = list(ge.enum(ev))
        except Exception as x:  # noqa: BLE001
            envs = [{"exception": type(x).__name__ + ":" + str(x)[:200]}]
        out.append(envs)
    return out


def record_run(name, sources, opts):
    raw = run_stream(sources, opts)
    notes = []
    envs, shapes = [], []
    for seg in raw:
        pe, sh = [], []
        for e in seg:
            try:
                json.loads(json.dumps(e))
            except (TypeError, ValueError) as x:
                notes.append("not JSON-serialisable: " + str(x))
            try:
                pe.append(project_envelope(e))
            except Exception as x:  # noqa: BLE001
                pe.append(dict(k="unprojectable"))
                notes.append("unprojectable envelope: " + repr(x)[:200])
            sh.append(shape(e))
        envs.append(pe)
        shapes.append(sh)
    seq = opts if isinstance(opts, list) else [opts] * len(sources)
    first = seq[0] if seq else (True, True, True)
    return dict(name=name, opts=dict(source=first[0], ast=first[1], pickles=first[2]), optseq=[dict(source=o[0], ast=o[1], pickles=o[2]) for o in seq],
                sources=[dict(uri=cp(u), data=cp(d)) for u, d in sources], envs=envs, shapes=shapes, notes=notes), raw


def reference_shapes():
    """Shapes of every envelope in the corpus' reference ndjson files (for .feature sources)."""
    import glob
    from common import REPO
    out = []
    for f in sorted(glob.glob(os.path.join(REPO, "testdata", "*", "*.feature.*.ndjson"))):
        if ".md." in os.path.basename(f):
            continue            # produced by the JavaScript implementation from Markdown sources; outside C17
        for n, l in enumerate(open(f, encoding="utf8")):
            if l.strip():
                out.append(dict(file=os.path.basename(f), n=n, shape=shape(json.loads(l))))
    return out


def validate(runs: list[dict], timeout=3000, refshapes=None):
    with Scratch("stream") as sc:
        write_dialects(sc)
        sc.write_json("refshapes.json", refshapes or [])
        sc.write_json("runs.json", [{k: v for k, v in r.items() if k != "notes"} for r in runs])
        res = run_tlc(sc, "Trace_Stream", workers=min(CORES, max(1, len(runs))), timeout=timeout)
    if "Parsing or semantic analysis failed" in res.out or not res.finished or res.errors:
        raise MachineryError("Trace_Stream did not complete:\n" + "\n".join(res.out.splitlines()[-40:]))
    mism = {m["rid"]: m for m in res.tuples("SMISMATCH")}
    if res.tuples("REFSHAPE"):
        raise MachineryError("Messages.tla does not fit the corpus reference envelopes (transcription error): " + json.dumps(res.tuples("REFSHAPE")[:5]))
    done = {m["rid"]: m for m in res.tuples("SDONE")}
    missing = [i + 1 for i in range(len(runs)) if i + 1 not in mism and i + 1 not in done]
    if missing:
        raise MachineryError(f"{len(missing)} stream runs neither finished nor reported a mismatch")
    return mism, done, res


def cli_events(files: list[str], flags: list[str], env_extra: dict | None = None, cwd: str | None = None) -> list[dict]:
    """scripts/generate_events.py as a subprocess: the JSON text it prints, parsed back."""
    env = dict(os.environ, PYTHONPATH=PYROOT, PYTHONDONTWRITEBYTECODE="1", **(env_extra or {}))
    p = subprocess.run([sys.executable, os.path.join(PYROOT, "scripts", "generate_events.py"), *flags, *files], capture_output=True, text=True, env=env, timeout=120, cwd=cwd,
                       encoding="utf8" if env_extra else None)
    if p.returncode != 0:
        return [{"exception": p.stderr[-500:]}]
    return [json.loads(l) for l in p.stdout.splitlines() if l.strip()]


POOL = [
    ("ok1.feature", "Feature: a\n  Scenario: s\n    Given x\n"),
    ("outline.feature", "@f\nFeature: o\n  Background:\n    Given b\n  @s\n  Scenario Outline: <h>\n    And <h>\n      | c | <h> |\n    Examples:\n      | h |\n      | 1 |\n      | 2 |\n"),
    ("bad-early.feature", "junk\nFeature: x\n"),
    ("bad-late.feature", "Feature: l\n  Scenario: s\n    Given x\n      | a |\n      | a | b |\n  @bad tag\n"),
    ("empty.feature", ""),
    ("rule.feature", "# language: fr\nFonctionnalité: r\n  Règle: q\n    Scénario: t\n      Soit y\n        \"\"\"\n        doc\n        \"\"\"\n"),
]


def model_check_and_replay(max_sources: int, pool=POOL, timeout=3000, max_changes: int = 1):
    """MC_Stream: every sequence <= max_sources over the pool x 8 option sets; invariants on the spec; replay on the real stream."""
    with Scratch("mcstream") as sc:
        write_dialects(sc)
        sc.write_json("pool.json", [dict(uri=cp(u), data=cp(d)) for u, d in pool])
        cfg = open(sc.path("MC_Stream.cfg")).read().replace("MaxSources = 2", f"MaxSources = {max_sources}").replace("MaxChanges = 1", f"MaxChanges = {max_changes}")
        sc.write("MC_Stream_run.cfg", cfg)
        res = run_tlc(sc, "MC_Stream", cfg="MC_Stream_run.cfg", timeout=timeout, extra=["-continue"])
    if "Parsing or semantic analysis failed" in res.out or not res.finished or any("Invariant" not in e and "violated" not in e and "ropert" not in e for e in res.errors):
        raise MachineryError("MC_Stream did not complete:\n" + "\n".join(res.out.splitlines()[-40:]))
    streams = res.tuples("STREAM")
    bad = []
    for st in streams:
        o = st["opts"]
        srcs = [pool[i - 1] for i in st["seq"]]
        rec, raw = record_run("mc", srcs, [(x["source"], x["ast"], x["pickles"]) for x in st["optseq"]] if st["seq"] else (o["source"], o["ast"], o["pickles"]))
        if rec["envs"] != st["segs"] or rec["notes"]:
            k = next((j for j, (a, b) in enumerate(zip(rec["envs"], st["segs"])) if a != b), None)
            bad.append(dict(seq=st["seq"], opts=o, first_differing_source=k, notes=rec["notes"],
                            spec=st["segs"][k] if k is not None else None, impl=rec["envs"][k] if k is not None else None))
    return streams, bad, res
