#!/venv/bin/python
"""./check <Cxx> [--tier quick|thorough] [--replay <file>]

exit 0: the property held on everything explored (KNOWN-FINDING lines for listed findings);
exit 1: VIOLATION property=<id> replay=<path>;  exit 2: the machinery itself failed (never a verdict).
"""
from __future__ import annotations
import argparse, json, os, sys, time, traceback

sys.path.insert(0, os.path.dirname(os.path.abspath(__file__)))
from common import MachineryError, Reporter, SEED, uncp  # noqa: E402
import engines as E  # noqa: E402
import props  # noqa: E402


def main() -> int:
    ap = argparse.ArgumentParser()
    ap.add_argument("prop")
    ap.add_argument("--tier", default=os.environ.get("VERIF_TIER", "quick"), choices=["quick", "thorough"])
    ap.add_argument("--replay")
    a = ap.parse_args()
    prop = a.prop.upper()
    if prop not in props.CHECKS:
        print(f"unknown property {prop}", file=sys.stderr)
        return 2
    if a.replay:
        return props.replay(prop, a.replay)
    rep = Reporter(prop, a.tier)
    try:
        props.CHECKS[prop](a.tier, rep)
        return rep.finish()
    except MachineryError as e:
        print(f"MACHINERY FAILURE in {prop}: {e}", file=sys.stderr)
        return 2
    except Exception:  # noqa: BLE001
        traceback.print_exc()
        print(f"MACHINERY FAILURE in {prop}", file=sys.stderr)
        return 2


if __name__ == "__main__":
    sys.exit(main())
