#!/venv/bin/python
"""Run the registered checks against the seeded changes kept under /verif/seeded/<name>/ (patch.diff, demo.py, meta.json).

For each: apply the patch, confirm the demonstration fails and the repository's tests still pass, run the property's check(s), undo the
patch straight away.  By default the patch is applied to /repo itself; with --worktrees a,b,c the seeds are distributed over existing scratch
worktrees of /repo (checks then run with VERIF_REPO pointing there and evidence/replays redirected to a scratch directory), in parallel.
Usage: seedtest.py [--thorough] [--worktrees /tmp/wt-A,/tmp/wt-B] [--all-checks] [name ...]
"""
from __future__ import annotations
import json, os, subprocess, sys, time, tempfile, shutil
from concurrent.futures import ThreadPoolExecutor

V = os.path.dirname(os.path.dirname(os.path.abspath(__file__)))


def sh(cmd, **k):
    return subprocess.run(cmd, shell=True, capture_output=True, text=True, **k)


def one(n, repo, tier, scratch):
    d = os.path.join(V, "seeded", n)
    meta = json.load(open(os.path.join(d, "meta.json")))
    props = meta.get("checks") or [meta["property"]]
    env = dict(os.environ)
    if repo != "/repo":
        env.update(VERIF_REPO=repo, VERIF_EVIDENCE=os.path.join(scratch, "evidence"), VERIF_REPLAYS=os.path.join(scratch, "replays"))
    try:
        if sh(f"git -C {repo} status --porcelain --untracked-files=no").stdout.strip():
            return n, "WORKTREE NOT CLEAN"
        a = sh(f"git -C {repo} apply {d}/patch.diff")
        if a.returncode != 0:
            return n, "PATCH DOES NOT APPLY: " + a.stderr[:200]
        demo = sh(f"/venv/bin/python {d}/demo.py {repo}", timeout=600)
        tests = sh(f"cd {repo} && /venv/bin/python -m pytest -q -p no:cacheprovider 2>&1 | tail -1")
        res = {}
        for p in props:
            t0 = time.time()
            c = sh(f"cd {V} && ./check {p} --tier {tier}", timeout=7200, env=env)
            first = next((l for l in c.stdout.splitlines() if "violation(s); first:" in l), "")[:400]
            res[p] = dict(rc=c.returncode, violations=c.stdout.count("VIOLATION property="), wall=round(time.time() - t0), first=first,
                          stderr=c.stderr[-400:] if c.returncode == 2 else "")
        return n, dict(demo_fails=demo.returncode != 0, tests=tests.stdout.strip(), checks=res)
    finally:
        sh(f"git -C {repo} checkout -- . ")


def main():
    argv = sys.argv[1:]
    tier = "thorough" if "--thorough" in argv else "quick"
    wts = ["/repo"]
    if "--worktrees" in argv:
        wts = argv[argv.index("--worktrees") + 1].split(",")
    names = [a for a in argv if not a.startswith("--") and a not in (",".join(wts),)]
    names = names or sorted(x for x in os.listdir(os.path.join(V, "seeded")) if os.path.isdir(os.path.join(V, "seeded", x)))
    names = [n for n in names if os.path.exists(os.path.join(V, "seeded", n, "patch.diff"))]
    scratch = tempfile.mkdtemp(prefix="verif-seedtest-")
    out = {}
    try:
        queue = list(names)

        def worker(repo):
            while queue:
                n = queue.pop(0)
                k, r = one(n, repo, tier, os.path.join(scratch, os.path.basename(repo)))
                out[k] = r
                print(k, json.dumps(r)[:600], flush=True)
        with ThreadPoolExecutor(len(wts)) as ex:
            list(ex.map(worker, wts))
    finally:
        shutil.rmtree(scratch, ignore_errors=True)
    p = os.path.join(V, "seeded", "_last_run.json")
    old = json.load(open(p)) if os.path.exists(p) else {}
    old.update(out)
    json.dump(old, open(p, "w"), indent=1, sort_keys=True)
    det = sum(1 for r in out.values() if isinstance(r, dict) and any(c["rc"] == 1 for c in r["checks"].values()))
    print(f"detected {det} of {len(out)}")


if __name__ == "__main__":
    main()
