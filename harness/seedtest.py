#!/venv/bin/python
"""Run the registered checks against the seeded changes kept under /verif/seeded/<name>/ (patch.diff, demo.py, meta.json).

For each: apply the patch to /repo, confirm the demonstration fails and the repository's tests still pass, run the property's check,
undo the patch straight away.  Usage: seedtest.py [--tier quick] [name ...]
"""
from __future__ import annotations
import json, os, subprocess, sys, time

V = os.path.dirname(os.path.dirname(os.path.abspath(__file__)))
REPO = "/repo"


def sh(cmd, **k):
    return subprocess.run(cmd, shell=True, capture_output=True, text=True, **k)


def clean():
    sh(f"git -C {REPO} checkout -- . && git -C {REPO} clean -fdq -- python")


def main():
    args = [a for a in sys.argv[1:] if not a.startswith("--")]
    tier = "thorough" if "--thorough" in sys.argv else "quick"
    names = args or sorted(os.listdir(os.path.join(V, "seeded")))
    rows = []
    assert sh(f"git -C {REPO} status --porcelain").stdout.strip() == "", "/repo is not clean"
    for n in names:
        d = os.path.join(V, "seeded", n)
        if not os.path.exists(os.path.join(d, "patch.diff")):
            continue
        meta = json.load(open(os.path.join(d, "meta.json")))
        props = meta["checks"] if "checks" in meta else [meta["property"]]
        try:
            a = sh(f"git -C {REPO} apply {d}/patch.diff")
            if a.returncode != 0:
                rows.append((n, "PATCH DOES NOT APPLY", a.stderr[:200]))
                continue
            demo = sh(f"/venv/bin/python {d}/demo.py {REPO}", timeout=300)
            tests = sh(f"cd {REPO} && /venv/bin/python -m pytest -q -p no:cacheprovider 2>&1 | tail -1")
            res = {}
            for p in props:
                t0 = time.time()
                c = sh(f"cd {V} && ./check {p} --tier {tier}", timeout=3600)
                kinds = sorted({l.split("replay=")[0] for l in c.stdout.splitlines() if l.startswith("VIOLATION")})
                first = next((l for l in c.stdout.splitlines() if "violation(s); first:" in l), "")[:300]
                res[p] = dict(rc=c.returncode, violations=c.stdout.count("VIOLATION property="), wall=round(time.time() - t0), first=first,
                              stderr=c.stderr[-300:] if c.returncode == 2 else "")
            rows.append((n, dict(demo_fails=demo.returncode != 0, tests=tests.stdout.strip(), checks=res)))
        finally:
            clean()
    out = {}
    for n, *r in rows:
        out[n] = r[0] if len(r) == 1 else r
        print(n, json.dumps(out[n])[:700])
    json.dump(out, open(os.path.join(V, "seeded", "_last_run.json"), "w"), indent=1)
    # restore the evidence of the unchanged tree is the caller's job (re-run the checks)


if __name__ == "__main__":
    main()
