"""The generated parsers as data, and their comparison with the table the specification derives from the grammar.

 spec_table()        : runs TLC on MC_Table.tla -> derived states/transitions + the grammar transcription
 berp_grammar()      : reads /repo/gherkin.berp (the grammar file itself)
 extract_python()    : parser.py through Python's ast module
 extract_sibling(l)  : Java / Go / Ruby / C / TypeScript parsers through line patterns
 bisimulate(spec, p) : functional bisimulation from the spec's 65 grammar positions onto the program's numbered states,
                       comparing ordered transitions (token, look-ahead id, productions) and expected-token lists
"""
from __future__ import annotations
import ast, json, os, re
from common import Scratch, run_tlc, REPO, MachineryError

TOKENS = ["EOF", "Empty", "Comment", "TagLine", "FeatureLine", "RuleLine", "BackgroundLine", "ScenarioLine", "ExamplesLine", "StepLine",
          "DocStringSeparator", "TableRow", "Language", "Other"]


def spec_table():
    with Scratch("table") as sc:
        res = run_tlc(sc, "MC_Table", workers=1, timeout=300)
    if not res.finished or res.errors:
        raise MachineryError("MC_Table failed:\n" + "\n".join(res.out.splitlines()[-30:]))
    t = res.tuples("TABLE")
    if len(t) != 1:
        raise MachineryError("MC_Table printed no table")
    return t[0], res


# ------------------------------------------------------------------------------------------------ the grammar file
def berp_grammar(path=None):
    """-> (rules: name -> dict(kind, ast, els=[(sym, mult)]), hints: rule -> dict(tok, expect, skip), ignored)"""
    text = open(path or os.path.join(REPO, "gherkin.berp"), encoding="utf8").read()
    ignored = re.search(r"IgnoredTokens\s*->\s*(.*)", text).group(1).strip().split(",")
    body = text[text.index("]") + 1:]
    rules, hints, order, alt = {}, {}, [], [0]
    for line in body.splitlines():
        line = line.split("//")[0].strip()
        if not line:
            continue
        m = re.match(r"^(\w+)(!?)\s*(\[[^\]]*\])?\s*:=\s*(.*)$", line)
        if not m:
            raise MachineryError("unreadable grammar line: " + line)
        name, bang, hint, rhs = m.groups()
        if hint:
            h = re.match(r"\[(.*)->(.*)\]", hint)
            hints[name] = dict(skip=sorted(x.strip() for x in h.group(1).split("|")), expect=h.group(2).strip())
        els = []
        for el in re.findall(r"\([^)]*\)[?*+]?|[#\w]+[?*+]?", rhs):
            mult = el[-1] if el[-1] in "?*+" else "1"
            sym = el.rstrip("?*+")
            if sym.startswith("("):
                an = "__alt%d" % alt[0]
                alt[0] += 1
                rules[an] = dict(kind="alt", ast=False, els=[(x.strip(), "1") for x in sym.strip("()").split("|")])
                sym = an
            els.append((sym, mult))
        rules[name] = dict(kind="seq", ast=bool(bang), els=els)
        order.append(name)
    rules[order[0]]["els"].append(("#EOF", "1"))          # Berp appends the end-of-file token to the start rule
    return rules, hints, ignored, order


def compare_grammar(dump, rules, hints, ignored):
    """The TLA+ transcription (Grammar!Rules/Hints/Ignored) against the grammar file."""
    diffs = []
    srules = {r["name"]: r for r in dump["rules"]}
    if set(srules) != set(rules):
        diffs.append(("rule names", sorted(set(srules) ^ set(rules))))
    for n in set(srules) & set(rules):
        a = (srules[n]["kind"], bool(srules[n]["ast"]), [(e["s"], e["m"]) for e in srules[n]["els"]])
        b = (rules[n]["kind"], rules[n]["ast"], [tuple(e) for e in rules[n]["els"]])
        if a != b:
            diffs.append((n, a, b))
    sh = {h["rule"]: (h["expect"], sorted(h["skip"])) for h in dump["hints"]}
    fh = {n: (h["expect"], h["skip"]) for n, h in hints.items()}
    if sh != fh:
        diffs.append(("hints", sh, fh))
    if list(dump["ignored"]) != list(ignored):
        diffs.append(("ignored", dump["ignored"], ignored))
    return diffs


# ------------------------------------------------------------------------------------------------ parser.py via ast
class NotExtractable(Exception):
    pass


def extract_python(path=None):
    path = path or os.path.join(REPO, "python", "gherkin", "parser.py")
    tree = ast.parse(open(path, encoding="utf8").read())
    cls = next((n for n in tree.body if isinstance(n, ast.ClassDef) and n.name == "Parser"), None)
    if cls is None:
        raise NotExtractable("no class Parser")
    states, looks = {}, {}

    def call_name(c):
        return c.func.attr if isinstance(c, ast.Call) and isinstance(c.func, ast.Attribute) else None

    def prods_of(body):
        prods, tgt = [], None
        for st in body:
            if isinstance(st, ast.Expr) and isinstance(st.value, ast.Call):
                n = call_name(st.value)
                if n == "start_rule":
                    prods.append(["S", st.value.args[1].value])
                elif n == "end_rule":
                    prods.append(["E", st.value.args[1].value])
                elif n == "build":
                    prods.append(["B", ""])
                else:
                    raise NotExtractable(f"unexpected call {n}")
            elif isinstance(st, ast.Return):
                tgt = st.value.value
            else:
                raise NotExtractable("unexpected statement in transition body")
        return prods, tgt

    for fn in cls.body:
        if not isinstance(fn, ast.FunctionDef):
            continue
        m = re.match(r"match_token_at_(\d+)$", fn.name)
        if m:
            trans, expected, stay = [], None, None
            for st in fn.body:
                if isinstance(st, ast.If) and call_name(st.test) and call_name(st.test).startswith("match_"):
                    tok = call_name(st.test)[6:]
                    inner = st.body
                    la = None
                    if len(inner) == 1 and isinstance(inner[0], ast.If) and (call_name(inner[0].test) or "").startswith("lookahead_"):
                        la = int(call_name(inner[0].test)[10:])
                        inner = inner[0].body
                    prods, tgt = prods_of(inner)
                    trans.append(dict(tok=tok, la=la, prods=prods, tgt=tgt))
                elif isinstance(st, ast.Assign) and getattr(st.targets[0], "id", "") == "expected_tokens":
                    expected = [e.value for e in st.value.elts]
                elif isinstance(st, ast.Return):
                    stay = st.value.value
            states[int(m.group(1))] = dict(trans=trans, expected=expected, stay=stay)
        m = re.match(r"lookahead_(\d+)$", fn.name)
        if m:
            names = [n.func.attr[6:] for n in ast.walk(fn) if isinstance(n, ast.Call) and isinstance(n.func, ast.Attribute) and n.func.attr.startswith("match_")]
            looks[int(m.group(1))] = dict(expect=names[0], skip=sorted(names[1:]))
    if not states:
        raise NotExtractable("no match_token_at_<n> methods")
    return dict(states=states, looks=looks, lang="python")


# ------------------------------------------------------------------------------------------------ siblings via line patterns
SIBLINGS = {
    "java": ("java/src/main/java/io/cucumber/gherkin/Parser.java", r"\bint matchTokenAt_(\d+)\(", r"\blookahead_(\d+)\(ParserContext"),
    "go": ("go/parser.go", r"^func \(ctxt \*parseContext\) matchAt(\d+)\(", r"^func \(ctxt \*parseContext\) lookahead(\d+)\("),
    "ruby": ("ruby/lib/gherkin/parser.rb", r"^\s*def match_token_at_state(\d+)\(", r"^\s*def lookahead(\d+)\("),
    "c": ("c/src/parser.c", r"^static int match_token_at_(\d+)\(Token", r"^static bool lookahead_(\d+)\(ParserContext"),
    "typescript": ("javascript/src/Parser.ts", r"^\s*private matchTokenAt_(\d+)\(", r"^\s*private lookahead_(\d+)\("),
}
TOK_RE = re.compile(r"(?:\bmatch_?|\bisMatch)(" + "|".join(TOKENS) + r")\s*\(")
LA_RE = re.compile(r"\blookahead_?(\d+)\s*\(")
START_RE = re.compile(r"\bstart_?[rR]ule\s*\(\s*(?:context\s*,\s*)?(?:RuleType\.|RuleType|Rule_|:|')(\w+)")
END_RE = re.compile(r"\bend_?[rR]ule\s*\(\s*(?:context\s*)?(?:,\s*(?:RuleType\.|RuleType|Rule_|:|')(\w+))?(?:RuleType(\w+))?")
BUILD_RE = re.compile(r"\bbuild\s*\(")
RET_RE = re.compile(r"\breturn\s+(\d+)")
EXP_RE = re.compile(r"expected_?[tT]okens\s*:?=[^\"]*(\"#.*)$")


def extract_sibling(lang):
    rel, fn_re, la_re = SIBLINGS[lang]
    lines = open(os.path.join(REPO, rel), encoding="utf8").read().split("\n")
    states, looks, cur, curla, t = {}, {}, None, None, None
    for l in lines:
        m = re.search(fn_re, l)
        if m:
            cur = dict(trans=[], expected=None, stay=None)
            states[int(m.group(1))] = cur
            curla, t = None, None
            continue
        m = re.search(la_re, l)
        if m and not l.strip().startswith(("if", "}")):
            curla = dict(names=[])
            looks[int(m.group(1))] = curla
            cur = None
            continue
        if curla is not None:
            curla["names"] += TOK_RE.findall(l)
            if re.search(r"\breturn\s+match\b", l):
                curla = None
        if cur is None:
            continue
        if re.match(r"^(func |static |    def |  private |    private |    public |  public )", l) and not re.search(fn_re, l):
            cur = None
            continue
        m = TOK_RE.search(l)
        if m and ("if" in l):
            t = dict(tok=m.group(1), la=None, prods=[], tgt=None)
            cur["trans"].append(t)
            continue
        m = LA_RE.search(l)
        if m and t is not None and "if" in l:
            t["la"] = int(m.group(1))
            continue
        m = START_RE.search(l)
        if m and t is not None:
            t["prods"].append(["S", m.group(1)])
            continue
        m = END_RE.search(l)
        if m and t is not None and re.search(r"\bend_?[rR]ule\s*\(", l):
            t["prods"].append(["E", m.group(1) or m.group(2) or "*"])
            continue
        if BUILD_RE.search(l) and t is not None:
            t["prods"].append(["B", ""])
            continue
        m = EXP_RE.search(l)
        if m:
            cur["expected"] = re.findall(r"#\w+", m.group(1))
            t = None
            continue
        m = RET_RE.search(l)
        if m:
            if t is not None and t["tgt"] is None:
                t["tgt"] = int(m.group(1))
            elif cur["expected"] is not None and cur["stay"] is None:
                cur["stay"] = int(m.group(1))
    lk = {}
    for k, v in looks.items():
        if v["names"]:
            lk[k] = dict(expect=v["names"][0], skip=sorted(set(v["names"][1:])))
    if not states:
        raise NotExtractable(f"{lang}: no state functions found")
    return dict(states=states, looks=lk, lang=lang)


# ------------------------------------------------------------------------------------------------ bisimulation
def bisimulate(dump, prog, start=0, end=34):
    """-> (mapping spec state (json) -> program state, list of discrepancies)"""
    S = {json.dumps(e["state"]): e for e in dump["states"]}
    pairs, todo, bad = {}, [(json.dumps([]), start)], []
    wild = prog["lang"] == "typescript"
    while todo:
        s, p = todo.pop()
        if s in pairs:
            if pairs[s] != p:
                bad.append(("not functional", s, pairs[s], p))
            continue
        pairs[s] = p
        e = S[s]
        if e["isEnd"]:
            if p != end:
                bad.append(("end state", s, p))
            continue
        if p not in prog["states"]:
            bad.append(("missing state", p))
            continue
        ps = prog["states"][p]
        a = [(t["tok"][1:], None if t["la"] == 99 else t["la"], [list(x) for x in t["prods"]]) for t in e["trans"]]
        b = [(t["tok"], t["la"], [([x[0], "*"] if wild and x[0] == "E" else list(x)) for x in t["prods"]]) for t in ps["trans"]]
        if wild:
            a = [(x, y, [([q[0], "*"] if q[0] == "E" else q) for q in z]) for x, y, z in a]
        if a != b:
            bad.append(("transitions of state", p, [x for x in zip(a, b) if x[0] != x[1]][:3], len(a), len(b)))
            continue
        if list(e["expected"]) != list(ps["expected"] or []):
            bad.append(("expected list of state", p, e["expected"], ps["expected"]))
        if ps["stay"] != p:
            bad.append(("error-stay state", p, ps["stay"]))
        for t, u in zip(e["trans"], ps["trans"]):
            todo.append((json.dumps(t["target"]), u["tgt"]))
    hints = {h["id"]: (h["expect"][1:], sorted(x[1:] for x in h["skip"])) for h in dump["hints"]}
    lk = {k: (v["expect"], v["skip"]) for k, v in prog["looks"].items()}
    if hints != lk:
        bad.append(("look-ahead functions", hints, lk))
    return pairs, bad


if __name__ == "__main__":
    dump, res = spec_table()
    print("spec states", len(dump["states"]), "transitions", sum(len(s["trans"]) for s in dump["states"]))
    print("grammar diffs", compare_grammar(dump, *berp_grammar()[:3]))
    for prog in [extract_python()] + [extract_sibling(l) for l in SIBLINGS]:
        pairs, bad = bisimulate(dump, prog)
        print(prog["lang"], "states", len(prog["states"]), "trans", sum(len(s["trans"]) for s in prog["states"].values()), "pairs", len(pairs),
              "covered", len(set(pairs.values())), "bad", len(bad), bad[:2], prog["looks"])
