"""spec -> code: replay behaviours TLC enumerated (MC_Menu) through the real parser and compiler."""
from __future__ import annotations
import json
from concurrent.futures import ProcessPoolExecutor
from common import Scratch, run_tlc, write_dialects, MachineryError, CORES, cp, uncp
import record as R

FIELDS = ("errs", "ndeliv", "nid", "ast", "pickles")


def _replay_chunk(args):
    menu, mode, behs = args
    out = []
    for b in behs:
        text = "".join(menu[i - 1] for i in b["input"])
        rec = R.record("menu", text, "en", mode)
        obs = dict(errs=rec["errs"], ndeliv=len(rec["toks"]), nid=rec["nid_after"],
                   ast=[rec["ast"]] if rec["ok"] else [], pickles=rec["pickles"])
        diff = [f for f in FIELDS if obs[f] != b[f]]
        if rec["exc"] or diff:
            out.append(dict(text=text, input=b["input"], field="exception" if rec["exc"] else diff[0], fields=(["exception"] if rec["exc"] else []) + diff,
                            exc=rec["exc"] or None, spec={f: b[f] for f in FIELDS}, impl=obs))
    return len(behs), out


def enumerate_and_replay(menu: list[str], max_lines: int, mode: str = "collect", max_errs: int = 2, tag: str = "menu",
                         cfg_extra: str = "", invariants: list[str] | None = None, timeout: int = 3000, dialects=("en", "fr"), prefix: list[int] | None = None):
    """-> (n behaviours, mismatches, TlcResult).  TLC invariant violations are returned in res.invariant_violations."""
    with Scratch(tag) as sc:
        write_dialects(sc, list(dialects))
        sc.write_json("menu.json", [cp(m) for m in menu])
        src = open(sc.path("MC_Menu.tla")).read().replace("=" * 77, "PrefixDef == <<%s>>\n" % ", ".join(map(str, prefix or [])) + "=" * 77)
        sc.write("MC_Menu.tla", src)
        cfg = ("SPECIFICATION Spec\nCONSTANT MaxLines = %d\nCONSTANT Mode = \"%s\"\nCONSTANT MaxErrs = %d\nCONSTANT PrefixIdx <- PrefixDef\nCONSTRAINT Constraint\n"
               "CHECK_DEADLOCK FALSE\n" % (max_lines, mode, max_errs))
        for inv in invariants or []:
            cfg += f"INVARIANT {inv}\n"
        sc.write("MC_Menu_run.cfg", cfg + cfg_extra)
        res = run_tlc(sc, "MC_Menu", cfg="MC_Menu_run.cfg", timeout=timeout, extra=["-continue"] if invariants else None)
    if "Parsing or semantic analysis failed" in res.out or not res.finished or any("Invariant" not in e and "violated" not in e for e in res.errors):
        raise MachineryError("MC_Menu did not complete:\n" + "\n".join(res.out.splitlines()[-40:]))
    behs = res.tuples("BEH")
    if not behs:
        raise MachineryError("MC_Menu printed no behaviours")
    chunks = [(menu, mode, behs[i::CORES]) for i in range(CORES)]
    n, mism = 0, []
    with ProcessPoolExecutor(CORES) as ex:
        for k, out in ex.map(_replay_chunk, chunks):
            n += k
            mism += out
    return n, mism, res, behs


def grow_and_replay(menu: list[str], starts: list[tuple[list[int], int]], tag: str = "grow", invariants: list[str] | None = None,
                    timeout: int = 3000, dialects=("en", "fr"), no_free_text: bool = False):
    """MC_Grow: every ACCEPTED document over the menu: for each (prefix, n) in starts, the prefix extended by up to n lines; replayed."""
    with Scratch(tag) as sc:
        write_dialects(sc, list(dialects))
        sc.write_json("menu.json", [cp(m) for m in menu])
        sdef = "{" + ", ".join("[p |-> <<%s>>, n |-> %d]" % (", ".join(map(str, p)), n) for p, n in starts) + "}"
        src = open(sc.path("MC_Grow.tla")).read().replace("=" * 77, "StartsDef == %s\n" % sdef + "=" * 77)
        sc.write("MC_Grow.tla", src)
        cfg = "SPECIFICATION Spec\nCONSTANT Starts <- StartsDef\nCONSTANT NoFreeText = %s\nCONSTRAINT Emit\nCHECK_DEADLOCK FALSE\n" % ("TRUE" if no_free_text else "FALSE")
        for inv in invariants or []:
            cfg += f"INVARIANT {inv}\n"
        sc.write("MC_Grow_run.cfg", cfg)
        res = run_tlc(sc, "MC_Grow", cfg="MC_Grow_run.cfg", timeout=timeout, extra=["-continue"] if invariants else None)
    if "Parsing or semantic analysis failed" in res.out or not res.finished or any("Invariant" not in e and "violated" not in e for e in res.errors):
        raise MachineryError("MC_Grow did not complete:\n" + "\n".join(res.out.splitlines()[-40:]))
    behs = res.tuples("BEH")
    chunks = [(menu, "collect", behs[i::CORES]) for i in range(CORES)]
    n, mism = 0, []
    with ProcessPoolExecutor(CORES) as ex:
        for k, out in ex.map(_replay_chunk, chunks):
            n += k
            mism += out
    return n, mism, res, behs


if __name__ == "__main__":
    import sys, time, menus
    t0 = time.time()
    if len(sys.argv) > 2:
        n, mism, res, behs = grow_and_replay(getattr(menus, sys.argv[2]), [([], int(sys.argv[1]))], invariants=["Inv_C06", "Inv_C07", "Inv_C08", "Inv_C10", "Inv_C11"], no_free_text=True)
    else:
        n, mism, res, behs = enumerate_and_replay(menus.BASE, int(sys.argv[1]) if len(sys.argv) > 1 else 3)
    print("behaviours", n, "mismatches", len(mism), "tlc", round(res.wall, 1), res.generated, res.distinct, "total", round(time.time() - t0, 1))
    for m in mism[:5]:
        print(json.dumps(m)[:800])
