#!/venv/bin/python
"""False-alarm test: behaviour-preserving changes kept under /verif/noop/<name>/ (patch.diff, notes.md, meta.json) are applied to scratch worktrees
of /repo and the checks named in meta.json must stay quiet (exit 0, no VIOLATION).  Usage: nooptest.py --worktrees a,b,c [name ...]"""
from __future__ import annotations
import json, os, subprocess, sys, time, tempfile, shutil
from concurrent.futures import ThreadPoolExecutor
V = os.path.dirname(os.path.dirname(os.path.abspath(__file__)))


def sh(cmd, **k):
    return subprocess.run(cmd, shell=True, capture_output=True, text=True, **k)


def one(n, repo, scratch):
    d = os.path.join(V, "noop", n)
    meta = json.load(open(os.path.join(d, "meta.json")))
    env = dict(os.environ, VERIF_REPO=repo, VERIF_EVIDENCE=os.path.join(scratch, "evidence"), VERIF_REPLAYS=os.path.join(scratch, "replays"))
    try:
        a = sh(f"git -C {repo} apply {d}/patch.diff")
        if a.returncode != 0:
            return n, "PATCH DOES NOT APPLY: " + a.stderr[:200]
        tests = sh(f"cd {repo} && /venv/bin/python -m pytest -q -p no:cacheprovider 2>&1 | tail -1").stdout.strip()
        res = {}
        for p in meta["checks"]:
            t0 = time.time()
            c = sh(f"cd {V} && ./check {p} --tier quick", timeout=7200, env=env)
            first = next((l for l in c.stdout.splitlines() if "violation(s); first:" in l), "")[:600]
            res[p] = dict(rc=c.returncode, wall=round(time.time() - t0), first=first, stderr=c.stderr[-300:] if c.returncode == 2 else "")
        return n, dict(tests=tests, checks=res)
    finally:
        sh(f"git -C {repo} checkout -- . ")


def main():
    argv = sys.argv[1:]
    wts = argv[argv.index("--worktrees") + 1].split(",")
    names = [a for a in argv if not a.startswith("--") and a != ",".join(wts)] or sorted(os.listdir(os.path.join(V, "noop")))
    names = [n for n in names if os.path.exists(os.path.join(V, "noop", n, "patch.diff"))]
    scratch = tempfile.mkdtemp(prefix="verif-nooptest-")
    out, queue = {}, list(names)

    def worker(repo):
        while queue:
            n = queue.pop(0)
            k, r = one(n, repo, os.path.join(scratch, os.path.basename(repo)))
            out[k] = r
            loud = [p for p, c in r["checks"].items() if c["rc"] != 0] if isinstance(r, dict) else ["?"]
            print(k, "QUIET" if not loud else "ALARM/ERROR in " + ",".join(loud), json.dumps(r)[:500] if loud else "", flush=True)
    try:
        with ThreadPoolExecutor(len(wts)) as ex:
            list(ex.map(worker, wts))
    finally:
        shutil.rmtree(scratch, ignore_errors=True)
    p = os.path.join(V, "noop", "_last_run.json")
    old = json.load(open(p)) if os.path.exists(p) else {}
    old.update(out)
    json.dump(old, open(p, "w"), indent=1, sort_keys=True)


if __name__ == "__main__":
    main()
