"""C19: the Markdown token matcher, line level, complete enumeration by TLC replayed on the real match_* methods."""
from __future__ import annotations
from concurrent.futures import ProcessPoolExecutor
from common import Scratch, run_tlc, write_dialects, MachineryError, CORES, uncp, import_gherkin

import_gherkin()
from gherkin.token_matcher_markdown import GherkinInMarkdownTokenMatcher  # noqa: E402
from gherkin.gherkin_line import GherkinLine  # noqa: E402
from gherkin.token import Token  # noqa: E402

METHOD = {"FeatureLine": "match_FeatureLine", "RuleLine": "match_RuleLine", "BackgroundLine": "match_BackgroundLine", "ScenarioLine": "match_ScenarioLine",
          "ExamplesLine": "match_ExamplesLine", "StepLine": "match_StepLine"}
TITLE_METHODS = ["match_FeatureLine", "match_RuleLine", "match_BackgroundLine", "match_ScenarioLine", "match_ExamplesLine"]


def _tok(line):
    return Token(GherkinLine(line, 1), {"line": 1})


def _fenced(dialect):
    """a matcher that has been shown the opening line of a fenced block (the statement is about the line, whatever the matcher saw before)"""
    tm = GherkinInMarkdownTokenMatcher(dialect)
    try:
        tm.match_DocStringSeparator(_tok("```\n"))
    except Exception:  # noqa: BLE001
        pass
    return tm


def _was_reset(dialect):
    """a matcher as the parser leaves it before every document: reset() was called (twice, once after a fence)"""
    tm = _fenced(dialect)
    tm.reset()
    tm.reset()
    return tm


def _kw_chunk(cases):
    bad = []
    tms = {}
    for c in cases:
        for state in ("fresh", "after an opening fence", "after reset()"):
            tm = tms.setdefault((c["d"], state), GherkinInMarkdownTokenMatcher(c["d"]) if state == "fresh" else _fenced(c["d"]) if state == "after an opening fence" else _was_reset(c["d"]))
            line = uncp(c["line"])
            if c["ok"]:
                t = _tok(line)
                try:
                    ok = getattr(tm, METHOD[c["type"]])(t)
                    got = (ok, t.matched_type, t.location.get("column"), t.matched_keyword, t.matched_text) if ok else (False,)
                except Exception as e:  # noqa: BLE001
                    got = ("exception", repr(e))
                exp = (True, c["type"], c["col"], uncp(c["kw"]), uncp(c["text"]))
                if got != exp:
                    bad.append(dict(dialect=c["d"], line=line, spec=exp, impl=got, matcher=state))
                    break
            else:
                # not recognised as ANY keyword or step line
                for m in (TITLE_METHODS if c["kind"] == "title" else ["match_StepLine"]):
                    t = _tok(line)
                    try:
                        ok = getattr(tm, m)(t)
                    except Exception as e:  # noqa: BLE001
                        ok = "exception " + repr(e)
                    if ok:
                        bad.append(dict(dialect=c["d"], line=line, spec="not recognised", impl=f"{m} -> {ok}", matcher=state))
    # matching lines must not write to the dialect table the matchers share
    from gherkin.dialect import DIALECTS
    from common import master_dialects
    if any(DIALECTS[d] != v for d, v in master_dialects().items()):
        bad.append(dict(dialect="*", line="", spec="the dialect table is what it was", impl="gherkin.dialect.DIALECTS changed while lines were matched", matcher="any"))
    return bad


def keywords(timeout=3000):
    with Scratch("md") as sc:
        write_dialects(sc)
        sc.write("MC_Markdown.cfg", "SPECIFICATION Spec\nCONSTRAINT Emit\nINVARIANT Inv_Header\nINVARIANT Inv_Bullet\nCHECK_DEADLOCK FALSE\n")
        res = run_tlc(sc, "MC_Markdown", timeout=timeout, extra=["-continue"])
    if "Parsing or semantic analysis failed" in res.out or not res.finished or any("Invariant" not in e and "violated" not in e for e in res.errors):
        raise MachineryError("MC_Markdown did not complete:\n" + "\n".join(res.out.splitlines()[-40:]))
    cases = res.tuples("MD")
    bad = []
    with ProcessPoolExecutor(CORES) as ex:
        for out in ex.map(_kw_chunk, [cases[i::CORES] for i in range(CORES)]):
            bad += out
    return cases, bad, res


def _rows_chunk(cases):
    bad = []
    tms = {"fresh": GherkinInMarkdownTokenMatcher("en"), "after an opening fence": _fenced("en")}
    for c in cases:
        line = uncp(c["line"])
        for state, tm in tms.items():
            t = _tok(line)
            try:
                if c["kind"] == "row":
                    ok = tm.match_TableRow(t)
                else:
                    ok = tm.match_TagLine(t)
                got = (True, [(i["column"], i["text"]) for i in t.matched_items]) if ok else (False, [])
            except Exception as e:  # noqa: BLE001
                got = ("exception", repr(e))
            exp = (c["ok"], [(i["col"], uncp(i["text"])) for i in c["items"]])
            if got != exp:
                bad.append(dict(kind=c["kind"], line=line, spec=exp, impl=got, matcher=state))
                break
    return bad


def rows_and_tags(max_len, tag_len=8, timeout=3000):
    with Scratch("mdr") as sc:
        sc.write("MC_MarkdownRows.cfg", f"SPECIFICATION Spec\nCONSTANT MaxLen = {max_len}\nCONSTANT TagLen = {tag_len}\nCONSTRAINT Emit\nINVARIANT Inv_RowWindow\nINVARIANT Inv_Tags\nCHECK_DEADLOCK FALSE\n")
        res = run_tlc(sc, "MC_MarkdownRows", timeout=timeout, extra=["-continue"])
    if "Parsing or semantic analysis failed" in res.out or not res.finished or any("Invariant" not in e and "violated" not in e for e in res.errors):
        raise MachineryError("MC_MarkdownRows did not complete:\n" + "\n".join(res.out.splitlines()[-40:]))
    cases = res.tuples("MDR")
    bad = []
    with ProcessPoolExecutor(CORES) as ex:
        for out in ex.map(_rows_chunk, [cases[i::CORES] for i in range(CORES)]):
            bad += out
    return cases, bad, res


if __name__ == "__main__":
    import time
    t0 = time.time()
    cases, bad, res = keywords()
    print("md keywords", len(cases), len(bad), res.distinct, res.invariant_violations, round(res.wall, 1), round(time.time() - t0, 1), bad[:2])
    t0 = time.time()
    cases, bad, res = rows_and_tags(4)
    print("md rows/tags", len(cases), len(bad), res.distinct, res.invariant_violations, round(res.wall, 1), round(time.time() - t0, 1), bad[:2])
