#!/venv/bin/python
"""Merges per-round seedtest logs (seeded/_round*_*.log, one "<name> <json>" line per seeded change) into seeded/_last_run.json: for every change the LATEST run counts
(first-pass logs first, the logs after strengthening after them).  Usage: seedmerge.py <log> [<log> ...]   (in chronological order)"""
import json, os, sys
V = os.path.dirname(os.path.dirname(os.path.abspath(__file__)))
p = os.path.join(V, "seeded", "_last_run.json")
last = json.load(open(p)) if os.path.exists(p) else {}
for f in sys.argv[1:]:
    n = 0
    for l in open(f):
        name, _, j = l.partition(" ")
        if not name.startswith("C") or not j.strip().startswith("{"):
            continue
        try:
            last[name] = json.loads(j)
            n += 1
        except ValueError:
            # the log line was cut off inside the quoted first violation: keep what is there
            import re
            m = re.match(r'\{"demo_fails": (true|false), "tests": "([^"]*)", "checks": \{"(C\d\d)": \{"rc": (\d), "violations": (\d+), "wall": (\d+), "first": "(.*)', j, re.S)
            if m:
                first = m.group(7).encode().decode("unicode_escape", errors="replace") if False else m.group(7).replace('\\"', '"')
                last[name] = {"demo_fails": m.group(1) == "true", "tests": m.group(2),
                              "checks": {m.group(3): {"rc": int(m.group(4)), "violations": int(m.group(5)), "wall": int(m.group(6)), "first": first.strip()[:600], "stderr": ""}}}
                n += 1
    print(f, n)
json.dump(last, open(p, "w"), indent=1, sort_keys=True)
missed = sorted(k for k, v in last.items() if isinstance(v, dict) and not any(c["rc"] == 1 for c in v["checks"].values()))
print(len(last), "changes;", len(missed), "not detected in their latest run:", missed)
