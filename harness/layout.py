"""C16: layout transformations -- spec -> code replay of MC_Layout and code -> spec relation check on recorded results (Trace_Layout)."""
from __future__ import annotations
import json, os, random, tempfile
from concurrent.futures import ProcessPoolExecutor
from common import Scratch, run_tlc, write_dialects, MachineryError, CORES, cp, uncp
import record as R, project as P

COMMENT = " # layout\n"


def result_of(text: str, dialect: str = "en"):
    rec = R.record("layout", text, dialect)
    return dict(errs=rec["errs"], ast=[rec["ast"]] if rec["ok"] else [], pickles=rec["pickles"]), rec


def _replay_chunk(items):
    bad = []
    n = 0
    for it in items:
        for c in it["cases"]:
            n += 1
            text = "".join(uncp(l) for l in c["lines"])
            got, rec = result_of(text)
            if c["tr"]["t"] == "noeol":
                same = got["ast"] == c["expect"]["ast"] and got["pickles"] == c["expect"]["pickles"] and (not got["errs"]) == (not c["expect"]["errs"])
            else:
                same = got == c["expect"]
            if rec["exc"] or not same:
                bad.append(dict(tr=c["tr"], source=text, spec=c["expect"], impl=got, exc=rec["exc"],
                                field=next((k for k in ("errs", "ast", "pickles") if got[k] != c["expect"][k]), "exception")))
    return n, bad


def model_check_and_replay(menu, max_lines, timeout=3000):
    with Scratch("layout") as sc:
        write_dialects(sc, ["en", "fr"])
        sc.write_json("menu.json", [cp(m) for m in menu])
        sc.write("MC_Layout_run.cfg", f"SPECIFICATION Spec\nCONSTANT MaxLines = {max_lines}\nCONSTRAINT Emit\nINVARIANT Inv_Layout\nCHECK_DEADLOCK FALSE\n")
        res = run_tlc(sc, "MC_Layout", cfg="MC_Layout_run.cfg", timeout=timeout, extra=["-continue"])
    if "Parsing or semantic analysis failed" in res.out or not res.finished or any("Invariant" not in e and "violated" not in e for e in res.errors):
        raise MachineryError("MC_Layout did not complete:\n" + "\n".join(res.out.splitlines()[-40:]))
    items = res.tuples("LAYOUT")
    n, bad = 0, []
    with ProcessPoolExecutor(CORES) as ex:
        for k, out in ex.map(_replay_chunk, [items[i::CORES] for i in range(CORES)]):
            n += k
            bad += out
    return items, n, bad, res


# ------------------------------------------------------------------------------------------------ code -> spec
def body_ending(l):
    if l.endswith("\r\n"):
        return l[:-2], "\r\n"
    if l.endswith("\n"):
        return l[:-1], "\n"
    return l, ""


def apply(lines: list[str], tr: dict) -> list[str]:
    t, i = tr["t"], tr["i"]
    if t == "crlf":
        return [l[:-1] + "\r\n" if l.endswith("\n") else l for l in lines]
    if t == "noeol":
        return lines[:-1] if lines[-1] == "\n" else lines[:-1] + [lines[-1][:-1]]
    if t == "trail":
        b, e = body_ending(lines[i - 1])
        return lines[:i - 1] + [b + chr(tr["c"]) * tr["n"] + e] + lines[i:]
    if t == "indent":
        return [chr(tr["c"]) * tr["n"] + l if i <= j + 1 <= i + tr["k"] else l for j, l in enumerate(lines)]
    if t == "blank":
        return lines[:i - 1] + ["\n"] + lines[i - 1:]
    if t == "comment":
        return lines[:i - 1] + [COMMENT] + lines[i - 1:]
    raise ValueError(t)


STRUCT = {"FeatureLine", "RuleLine", "BackgroundLine", "ScenarioLine", "ExamplesLine", "StepLine", "TagLine", "TableRow", "DocStringSeparator"}


def candidates(rec: dict, rnd: random.Random, per_kind: int):
    """Applications the property allows, chosen from the recorded token stream (TLC re-checks admissibility on the spec's own reading)."""
    lines = [uncp(l) for l in rec["lines"]]
    n = len(lines)
    toks = {t["line"]: t for t in rec["toks"]}
    out = []
    if all("\r" not in l for l in lines):
        out.append(dict(t="crlf", i=0, n=0, k=0, c=32))
    if lines and lines[-1].endswith("\n"):
        out.append(dict(t="noeol", i=0, n=0, k=0, c=32))
    # doc string blocks: opening line -> closing line
    seps = [t["line"] for t in rec["toks"] if t["type"] == "DocStringSeparator"]
    opens = {seps[j]: seps[j + 1] for j in range(0, len(seps) - 1, 2) if seps[j + 1] <= n}
    closes = set(seps[1::2])
    struct = [i for i in range(1, n + 1) if i in toks and toks[i]["type"] in STRUCT]
    rejected = [e["line"] for e in rec["errs"] if e["kind"] == "unexpected" and 1 <= e["line"] <= n]
    pick = lambda xs: list(xs) if len(struct) <= 12 else rnd.sample(xs, min(per_kind, len(xs)))  # noqa: E731  (small documents: every application)
    for i in pick(struct) + pick(rejected):      # (for rejected lines the spec decides whether the line is a keyword line by its own kind)
        out.append(dict(t="trail", i=i, n=rnd.choice([1, 3]), k=0, c=rnd.choice([32, 9])))
    for i in pick([i for i in struct if i not in closes]):
        if toks[i]["type"] == "DocStringSeparator":
            if i in opens:
                out.append(dict(t="indent", i=i, n=rnd.choice([1, 4]), k=opens[i] - i, c=32))
        else:
            out.append(dict(t="indent", i=i, n=rnd.choice([1, 4]), k=0, c=rnd.choice([32, 9])))
    for i in pick([i for i in struct if i not in closes]):
        out.append(dict(t="comment", i=i, n=0, k=0, c=32))
    # blank lines: anywhere a blank is read as a blank -- let the spec decide; propose positions next to structural and blank/comment lines
    cand_blank = [i for i in range(1, n + 1) if i in toks and toks[i]["type"] in STRUCT | {"Empty", "Comment", "Language"} and (i - 1 not in toks or toks[i - 1]["type"] != "Other")
                  and not any(a < i <= b for a, b in opens.items())]
    for i in pick(cand_blank):
        out.append(dict(t="blank", i=i, n=0, k=0, c=32))
    return lines, out


def build_pairs(sources, seed: int, per_kind: int):
    rnd = random.Random(seed)
    pairs = []
    for name, s, dialect in sources:
        import engines as _E
        if _E.known_finding_input(s) or not s:
            continue
        res, rec = result_of(s, dialect)
        if rec["exc"]:
            continue
        # (one random stream PER DOCUMENT, seeded by its name: adding or removing sources does not change what is sampled for the others)
        lines, cands = candidates(rec, random.Random(f"{seed}:{name}"), per_kind)
        cases = []
        for tr in cands:
            tl = apply(lines, tr)
            text = "".join(tl)
            if R.source_is_path(text):
                continue
            r2, rec2 = result_of(text, dialect)
            cases.append(dict(tr=tr, lines=[cp(l) for l in tl], result=r2, exc=rec2["exc"]))
        pairs.append(dict(name=name, dialect=dialect, lines=rec["lines"], result=res, cases=cases))
    return pairs


def validate_pairs(pairs, timeout=3000, batch=250):
    """-> ({pid: verdicts}, [TlcResult...]); big runs are split so that one JSON file stays small enough for TLC to load"""
    if len(pairs) > batch:
        v, rs = {}, []
        for b in range(0, len(pairs), batch):
            vb, rb = validate_pairs(pairs[b:b + batch], timeout, batch)
            v.update({k + b: x for k, x in vb.items()})
            rs += rb
        return v, rs
    need_all = any(35 in l for p in pairs for l in p["lines"][:30])
    with Scratch("tlayout") as sc:
        write_dialects(sc, None if need_all else sorted({p["dialect"] for p in pairs}))
        sc.write_json("pairs.json", [dict(p, cases=[{k: v for k, v in c.items() if k != "exc"} for c in p["cases"]]) for p in pairs])
        res = run_tlc(sc, "Trace_Layout", workers=min(CORES, max(1, len(pairs))), timeout=timeout)
    if "Parsing or semantic analysis failed" in res.out or not res.finished or res.errors:
        raise MachineryError("Trace_Layout did not complete:\n" + "\n".join(res.out.splitlines()[-40:]))
    v = {m["pid"]: m["v"] for m in res.tuples("LPAIR")}
    if len(v) != len(pairs):
        raise MachineryError(f"Trace_Layout reported {len(v)} of {len(pairs)} documents")
    return v, [res]


def file_vs_string(sources):
    """Loading a document from a file (TokenScanner(path), source_event(path)) gives what the string gives."""
    from gherkin.stream.source_events import source_event
    from gherkin.token_scanner import TokenScanner
    from gherkin.parser import Parser
    from gherkin.ast_builder import AstBuilder
    from gherkin.stream.id_generator import IdGenerator
    import sessions as S
    bad = []
    d = tempfile.mkdtemp(prefix="verif-c16-")
    try:
        for k, (name, s, dialect) in enumerate(sources):
            if R.source_is_path(s):
                continue
            p = os.path.join(d, f"{k}.feature")
            with open(p, "w", encoding="utf8", newline="") as fh:
                fh.write(s)
            from gherkin.token_matcher import TokenMatcher
            want, _ = S.outcome(lambda: Parser(AstBuilder(IdGenerator())).parse(s, TokenMatcher(dialect)))
            via_scanner, _ = S.outcome(lambda: Parser(AstBuilder(IdGenerator())).parse(TokenScanner(p), TokenMatcher(dialect)))
            try:
                ev = source_event(p)
            except Exception as x:  # noqa: BLE001
                bad.append(dict(name=name, what="source_event(path) raised " + type(x).__name__ + ": " + str(x)[:200], source=s))
                continue
            via_event, _ = S.outcome(lambda: Parser(AstBuilder(IdGenerator())).parse(ev["source"]["data"], TokenMatcher(dialect)))
            if ev["source"]["data"] != s:
                bad.append(dict(name=name, what="source_event does not return the file's text unchanged", source=s))
            if via_scanner != want:
                bad.append(dict(name=name, what="TokenScanner(path) result differs from the string's", source=s, string=want, file=via_scanner))
            if via_event != want:
                bad.append(dict(name=name, what="source_event(path) data parses differently from the string", source=s))
    finally:
        import shutil
        shutil.rmtree(d, ignore_errors=True)
    return bad


if __name__ == "__main__":
    import sys, time, menus
    t0 = time.time()
    items, n, bad, res = model_check_and_replay(menus.LAYOUT, int(sys.argv[1]) if len(sys.argv) > 1 else 2)
    print("layout mc", len(items), n, len(bad), res.distinct, res.invariant_violations, round(res.wall, 1), round(time.time() - t0, 1))
    print(json.dumps(bad[:1])[:1500])
