"""Which property does a conformance mismatch belong to?

A trace (or a replayed behaviour) can disagree with the specification in many places; every property check reports only
the disagreements that concern the sentence of ITS property, so that one recorded batch can serve several checks without
one property's defect being reported under another's name.  A disagreement nobody owns is reported by every check.
"""
from __future__ import annotations

TRACE_PROPS = ["C01", "C02", "C03", "C04", "C05", "C06", "C07", "C08", "C09", "C10", "C11", "C12", "C13", "C14", "C18"]


def diff_paths(a, b, path=()):
    """Paths (tuples of keys / indices / '#len') at which two JSON values differ."""
    if type(a) != type(b):
        return [path]
    if isinstance(a, dict):
        out = []
        for k in sorted(set(a) | set(b)):
            if k not in a or k not in b:
                out.append(path + (k, "#missing"))
            else:
                out += diff_paths(a[k], b[k], path + (k,))
        return out
    if isinstance(a, list):
        if a and all(isinstance(x, int) for x in a) or b and all(isinstance(x, int) for x in b):
            return [] if a == b else [path]          # code-point text: one leaf
        out = []
        if len(a) != len(b):
            out.append(path + ("#len",))
        for i, (x, y) in enumerate(zip(a, b)):
            out += diff_paths(x, y, path + (i,))
        return out
    return [] if a == b else [path]


AST_LEAF = {"line": {"C04"}, "col": {"C04"}, "id": {"C11"}, "kw": {"C05", "C03"}, "kwt": {"C05"}, "lang": {"C05"}, "name": {"C03"},
            "text": {"C03"}, "desc": {"C03"}, "value": {"C12", "C03"}, "content": {"C13", "C03"}, "delim": {"C13"}, "media": {"C13"}, "t": {"C03", "C02"}}


def owners_ast(spec, impl) -> set[str]:
    own: set[str] = set()
    for p in diff_paths(spec, impl):
        keys = [k for k in p if isinstance(k, str)]
        last = keys[-1] if keys else ""
        if last in ("#len", "#missing"):
            ctx = keys[-2] if len(keys) > 1 else ""
            own |= {"C12", "C03"} if ctx == "cells" else {"C13", "C03"} if ctx == "media" else {"C03", "C02"}
        elif "arg" in keys and last in ("text",):
            own |= {"C03"}
        else:
            own |= AST_LEAF.get(last, {"C03"})
    return own


def owners_pickles(spec, impl) -> set[str]:
    own: set[str] = set()
    for p in diff_paths(spec, impl):
        keys = [k for k in p if isinstance(k, str)]
        last = keys[-1] if keys else ""
        in_step = "steps" in keys
        if not keys or (last == "#len" and len(keys) == 1):
            own |= {"C06"}
        elif last == "#len":
            ctx = keys[-2]
            own |= {"C07"} if ctx == "steps" else {"C08"} if ctx == "tags" else {"C06", "C07"} if ctx == "astNodeIds" else {"C07", "C09"}
        elif "tags" in keys:
            own |= {"C08"} | ({"C11"} if last == "astNodeId" else set())
        elif last == "astNodeIds" or "astNodeIds" in keys:
            own |= ({"C07"} if in_step else {"C06"}) | {"C11"}
        elif last == "id":
            own |= {"C11"}
        elif last == "type":
            own |= {"C10"}
        elif last in ("name", "text") or "arg" in keys:
            own |= {"C09"} | ({"C07"} if "arg" in keys else {"C06"} if last == "name" else set())
        elif last in ("uri", "language"):
            own |= {"C06"}
        else:
            own |= {"C06"}
    return own


def owners_errors(spec, impl) -> set[str]:
    own = {"C14"}
    kinds = {e.get("kind") for e in list(spec) + list(impl) if isinstance(e, dict)}
    if "ragged" in kinds:
        own |= {"C12"}          # "a table whose rows differ in cell count is rejected with an error at the first deviating row"
    if "lang" in kinds:
        own |= {"C05"}          # "an unknown dialect is reported as an error at the header"
    if "tag" in kinds:
        own |= {"C04"}
    for p in diff_paths(spec, impl):
        keys = [k for k in p if isinstance(k, str)]
        if keys and keys[-1] in ("line", "col"):
            own |= {"C04"}
    return own


def owners_token(spec, impl) -> set[str]:
    own: set[str] = set()
    ty = spec.get("type")
    for p in diff_paths(spec, {k: impl.get(k) for k in spec}):
        keys = [k for k in p if isinstance(k, str)]
        last = keys[-1] if keys else ""
        if last in ("type", "line"):
            own |= {"C18", "C02"} | ({"C13"} if "Other" in (ty, impl.get("type")) or "DocStringSeparator" in (ty, impl.get("type")) else set()) | {"C05"}
        elif last == "col":
            own |= {"C04"}
        elif last in ("kw", "kwt"):
            own |= {"C05"} | ({"C13"} if ty == "DocStringSeparator" else set())
        elif last in ("text", "notext"):
            if "items" in keys:
                own |= {"C12"} if ty == "TableRow" else {"C03", "C08"}
            else:
                own |= {"C13", "C03"} if ty in ("Other", "DocStringSeparator") else {"C03"} | ({"C05"} if ty == "Language" else set())
        elif last in ("#len", "#missing") or "items" in keys:
            own |= {"C12"} if ty == "TableRow" else {"C03"}
        else:
            own |= {"C18"}
    return own


PRED_OWNER = {"c01": "C01", "c02": "C02", "c03": "C03", "c04": "C04", "c05": "C05", "c06": "C06", "c07": "C07", "c08": "C08", "c09": "C09", "c10": "C10",
              "c11": "C11", "c12": "C12", "c13": "C13", "c14": "C14", "c18": "C18"}


def trace_findings(result: dict, rec: dict) -> list[tuple[set[str], str, dict]]:
    """All disagreements of one validated trace as (owning properties, short label, detail)."""
    out = []
    st = result["step"]
    if st:
        c, d = st["clause"], st["detail"]
        if c == "tokens.extra":
            own = {"C18"}
        elif c == "tokens.fields":
            own = owners_token(d["spec"], d["impl"])
        elif c == "events":
            own = {"C02"}
        elif c == "listing":
            own = {"C18"}
        else:
            own = set()
        out.append((own or set(TRACE_PROPS), f"step:{c}@line{st['line']}", d))
    e = result["end"]
    if e is None:
        return out
    v, det = e["v"], e["detail"]
    if not v["outcome"]:
        d0 = det["outcome"][0] if det["outcome"] else {}
        own = {"C01", "C14", "C02"}
        if d0.get("spec_accepts") and not d0.get("impl_ok"):
            own |= {"C03"}          # a well-formed document did not yield an AST
        if str(d0.get("exc", "")).startswith("errors:"):
            own |= {"C04"}          # an error whose message does not start with its own position / an unknown message shape
        out.append((own, "end:outcome", d0))
    if not v["delivered"]:
        out.append(({"C18"}, "end:delivered", {}))
    if not v["errors"]:
        d = det["errors"][0]
        out.append((owners_errors(d["spec"], d["impl"]), "end:errors", d))
    if not v["ast"]:
        spec = det["ast"][0]["spec"]
        out.append((owners_ast(spec, rec["ast"]) or set(TRACE_PROPS), "end:ast", {"spec": spec, "impl": rec["ast"], "paths": [list(map(str, p)) for p in diff_paths(spec, rec["ast"])[:10]]}))
    if not v["pickles"]:
        spec = det["pickles"][0]["spec"]
        out.append((owners_pickles(spec, rec["pickles"]) or set(TRACE_PROPS), "end:pickles", {"spec": spec, "impl": rec["pickles"], "paths": [list(map(str, p)) for p in diff_paths(spec, rec["pickles"])[:10]]}))
    if not v["ids"]:
        out.append(({"C11"}, "end:ids", det["ids"][0] if det["ids"] else {}))
    if rec.get("pickles_again", rec["pickles"]) != rec["pickles"]:
        out.append((owners_pickles(rec["pickles"], rec["pickles_again"]) | {"C15"}, "compiler-reuse",
                    {"what": "a second compile() with the same Compiler gives a different result", "first": rec["pickles"], "second": rec["pickles_again"]}))
    for k, ok in e["p"].items():
        if not ok:
            own = {"C14", "C02"} if k == "c14_iff" else {PRED_OWNER[k.split("_")[0]]}
            out.append((own, f"predicate:{k}", {"predicate": k, "evaluated_on": "implementation result"}))
    return out
