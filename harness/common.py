"""Shared plumbing: locating the tree under test, scratch directories, running TLC, evidence, findings.

Everything here is stdlib-only and runs under /venv/bin/python (the interpreter the repository's tests use).
"""
from __future__ import annotations
import json, os, re, shutil, subprocess, sys, tempfile, time, hashlib

VERIF = os.path.dirname(os.path.dirname(os.path.abspath(__file__)))
REPO = os.environ.get("VERIF_REPO", "/repo")
PYROOT = os.path.join(REPO, "python")
SPEC = os.path.join(VERIF, "spec")
EVIDENCE = os.environ.get("VERIF_EVIDENCE") or os.path.join(VERIF, "evidence")
REPLAYS = os.environ.get("VERIF_REPLAYS") or os.path.join(VERIF, "replays")
JAR_CP = "/opt/veriftools/tla/tla2tools.jar:/opt/veriftools/tla/CommunityModules-deps.jar"
SEED = int(os.environ.get("VERIF_SEED", "0") or 0)
CORES = os.cpu_count() or 4

sys.dont_write_bytecode = True


def import_gherkin():
    """Import the implementation from /repo/python and make sure nothing else supplied it."""
    if PYROOT not in sys.path:
        sys.path.insert(0, PYROOT)
    import gherkin  # noqa
    import gherkin.parser, gherkin.token_matcher, gherkin.ast_builder, gherkin.pickles.compiler  # noqa
    import gherkin.stream.gherkin_events, gherkin.token_matcher_markdown, gherkin.token_formatter_builder  # noqa
    for name, mod in list(sys.modules.items()):
        if name == "gherkin" or name.startswith("gherkin."):
            f = getattr(mod, "__file__", None)
            if f and not os.path.abspath(f).startswith(os.path.abspath(PYROOT) + os.sep):
                raise MachineryError(f"module {name} loaded from {f}, not from {PYROOT}")
    return gherkin


class MachineryError(Exception):
    """The check itself failed (exit 2) -- never reported as a property violation."""


def cp(s: str) -> list[int]:
    return [ord(c) for c in s]


def uncp(a) -> str:
    return "".join(map(chr, a))


# ------------------------------------------------------------------------------------------------ scratch / data
class Scratch:
    """A throw-away directory holding a copy of the specification plus the data files of one TLC run."""

    def __init__(self, tag: str):
        base = os.environ.get("VERIF_SCRATCH") or tempfile.gettempdir()
        self.dir = tempfile.mkdtemp(prefix=f"verif-{tag}-", dir=base)
        for f in os.listdir(SPEC):
            if f.endswith(".tla") or f.endswith(".cfg"):
                shutil.copy(os.path.join(SPEC, f), self.dir)

    def path(self, name: str) -> str:
        return os.path.join(self.dir, name)

    def write_json(self, name: str, obj) -> None:
        with open(self.path(name), "w") as fh:
            json.dump(obj, fh)

    def write(self, name: str, text: str) -> None:
        with open(self.path(name), "w") as fh:
            fh.write(text)

    def close(self) -> None:
        if os.environ.get("VERIF_KEEP"):
            print(f"[scratch kept: {self.dir}]")
        else:
            shutil.rmtree(self.dir, ignore_errors=True)

    def __enter__(self):
        return self

    def __exit__(self, *a):
        self.close()


def master_dialects() -> dict:
    with open(os.path.join(REPO, "gherkin-languages.json"), encoding="utf-8") as fh:
        return json.load(fh)


DIALECT_KEYS = ["and", "background", "but", "examples", "feature", "given", "rule", "scenario", "scenarioOutline", "then", "when"]


def write_dialects(sc: Scratch, only: list[str] | None = None) -> dict:
    """dialects.json / langnames.json for Data.tla, converted from the MASTER table at run time."""
    d = master_dialects()
    names = sorted(d) if only is None else [n for n in sorted(d) if n in only]
    sc.write_json("dialects.json", {n: {k: [cp(x) for x in d[n][k]] for k in DIALECT_KEYS} for n in names})
    sc.write_json("langnames.json", {n: cp(n) for n in names})
    return {n: d[n] for n in names}


# ------------------------------------------------------------------------------------------------ TLC
class TlcResult:
    def __init__(self, out: str, rc: int, wall: float):
        self.out, self.rc, self.wall = out, rc, wall
        m = re.search(r"(\d+) states generated, (\d+) distinct states found, (\d+) states left on queue", out)
        self.generated = int(m.group(1)) if m else 0
        self.distinct = int(m.group(2)) if m else 0
        self.left = int(m.group(3)) if m else 0
        self.finished = "Model checking completed" in out or "Finished computing initial states" in out and self.left == 0 and m is not None
        self.invariant_violations = re.findall(r"Error: Invariant (\w+) is violated", out)
        self.invariant_violations += re.findall(r"Error: Action property (\w+) is violated", out)
        self.property_violations = re.findall(r"Error: (?:Action|Temporal) propert(?:y|ies) (\w+)?", out)
        self.errors = [l for l in out.splitlines() if l.startswith("Error:") and "The behavior up to this point" not in l]

    def tuples(self, tag: str) -> list:
        """All PrintT(<<"tag", ToJson(x)>>) payloads, robust against interleaved worker output."""
        res = []
        pat = re.compile(r'<<"' + re.escape(tag) + r'", ("(?:[^"\\]|\\.)*")>>')
        for m in pat.finditer(self.out):
            res.append(json.loads(json.loads(m.group(1))))
        return res


def run_tlc(sc: Scratch, module: str, cfg: str | None = None, workers: int | str = "auto", timeout: int = 3600,
            extra: list[str] | None = None, simulate: str | None = None, heap: str = "8g", env: dict | None = None,
            deadlock: bool = False) -> TlcResult:
    meta = sc.path("meta-" + module)
    cmd = ["java", "-XX:+UseParallelGC", f"-Xmx{heap}", "-Xss64m", "-cp", JAR_CP, "tlc2.TLC", "-noGenerateSpecTE",
           "-metadir", meta, "-workers", str(CORES if workers == "auto" else workers),
           "-config", cfg or (module + ".cfg")]
    if not deadlock:
        pass
    if simulate:
        cmd += ["-simulate", simulate]
    cmd += (extra or []) + [module + ".tla"]
    t0 = time.time()
    e = dict(os.environ)
    e.update(env or {})
    try:
        p = subprocess.run(cmd, cwd=sc.dir, capture_output=True, text=True, timeout=timeout, env=e)
    except subprocess.TimeoutExpired as ex:
        raise MachineryError(f"TLC timed out after {timeout}s on {module}: {' '.join(cmd)}") from ex
    out = p.stdout + p.stderr
    res = TlcResult(out, p.returncode, time.time() - t0)
    shutil.rmtree(meta, ignore_errors=True)
    return res


def tlc_must_be_clean(res: TlcResult, module: str, allow_invariants: bool = False) -> None:
    """Anything but a completed run (or, where asked for, invariant violations we interpret ourselves) is a machinery failure."""
    bad = [e for e in res.errors if not (allow_invariants and ("Invariant" in e or "is violated" in e))]
    syntax = "Parsing or semantic analysis failed" in res.out or "***Parse Error***" in res.out
    if syntax or (bad and not allow_invariants) or (res.generated == 0 and "states generated" not in res.out):
        tail = "\n".join(res.out.splitlines()[-40:])
        raise MachineryError(f"TLC failed on {module} (rc={res.rc}):\n{tail}")


# ------------------------------------------------------------------------------------------------ findings / evidence
def load_findings() -> list[dict]:
    p = os.path.join(VERIF, "known_findings.json")
    if not os.path.exists(p):
        return []
    with open(p) as fh:
        return json.load(fh)["findings"]


class Reporter:
    """Collects what one check run covered and found; writes evidence; prints the interface lines."""

    def __init__(self, prop: str, tier: str, level: str = "model_checking"):
        self.prop, self.tier, self.level = prop, tier, level
        self.t0 = time.time()
        self.states = 0
        self.transitions = 0
        self.traces = 0
        self.evaluations = 0
        self.distinct: set[str] = set()
        self.samples: list = []
        self.instances: list[dict] = []
        self.assumptions: list[str] = []
        self.violations: list[dict] = []
        self.known_hits: dict[str, int] = {}
        self.extra: dict = {}
        self.findings = [f for f in load_findings() if f["property"] == prop and f["status"] == "known"]

    # -- coverage
    def add_tlc(self, name: str, res: TlcResult, note: str = "") -> None:
        self.states += res.distinct
        self.transitions += res.generated
        self.instances.append({"instance": name, "distinct_states": res.distinct, "states_generated": res.generated,
                               "wall_s": round(res.wall, 1), "note": note})

    def case(self, key, nontrivial: bool = True) -> None:
        self.evaluations += 1
        if nontrivial:
            self.distinct.add(hashlib.sha1(repr(key).encode()).hexdigest()[:16])

    def sample(self, s) -> None:
        if len(self.samples) < 6:
            self.samples.append(s)

    # -- verdicts
    def violation(self, cause: dict, detail: dict) -> None:
        """cause: a small classification of the failing input computed by the check, matched against known findings."""
        for f in self.findings:
            if all(cause.get(k) == v for k, v in f["match"].items()):
                self.known_hits[f["what"]] = self.known_hits.get(f["what"], 0) + 1
                return
        self.violations.append({"cause": cause, **detail})

    def finish(self) -> int:
        os.makedirs(EVIDENCE, exist_ok=True)
        wall = time.time() - self.t0
        for what in self.known_hits:
            print(f"KNOWN-FINDING: property={self.prop} {what}")
        paths = []
        if self.violations:
            d = os.path.join(REPLAYS, self.prop)
            os.makedirs(d, exist_ok=True)
            for i, v in enumerate(self.violations[:20]):
                h = hashlib.sha1(json.dumps(v, sort_keys=True, default=str).encode()).hexdigest()[:10]
                path = os.path.join(d, f"{self.tier}-{h}.json")
                with open(path, "w") as fh:
                    json.dump({"property": self.prop, **v}, fh, indent=1, default=str)
                paths.append(path)
        cov = {
            "states": self.states, "transitions": self.transitions, "traces_validated_against_impl": self.traces,
            "samples": self.samples or ["(none recorded)"],
            "evaluations": max(self.evaluations, 1), "distinct_nontrivial": len(self.distinct),
            "rule": self.extra.pop("rule", "see instances"),
            "instances": self.instances, **self.extra,
        }
        ev = {"property_id": self.prop, "tier": self.tier, "seed": SEED, "level": self.level, "coverage": cov,
              "assumptions": self.assumptions, "wall_s": round(wall, 1), "violations": len(self.violations),
              "known_findings_hit": self.known_hits}
        with open(os.path.join(EVIDENCE, f"{self.prop}.json"), "w") as fh:
            json.dump(ev, fh, indent=1, default=str)
        for p in paths:
            print(f"VIOLATION property={self.prop} replay={p}")
        if self.violations:
            print(f"{self.prop}: {len(self.violations)} violation(s); first: {json.dumps(self.violations[0], default=str)[:600]}")
            return 1
        print(f"{self.prop} [{self.tier}] ok: states={self.states} transitions={self.transitions} traces={self.traces} "
              f"cases={self.evaluations} distinct={len(self.distinct)} wall={wall:.1f}s")
        return 0
