"""Run recorded executions through Trace_Pipeline.tla and collect the verdicts."""
from __future__ import annotations
import glob, os
from common import Scratch, run_tlc, write_dialects, MachineryError, REPO, CORES
import record as R


def corpus_sources() -> list[tuple[str, str]]:
    out = []
    for f in sorted(glob.glob(os.path.join(REPO, "testdata", "*", "*.feature"))):
        with open(f, encoding="utf8", newline="") as fh:
            out.append((os.path.relpath(f, os.path.join(REPO, "testdata")), fh.read()))
    return out


def validate(records: list[dict], tag: str = "trace", timeout: int = 3000):
    """-> (per-trace results, TlcResult).  result = {'name', 'step': None|{clause,line,detail}, 'end': None|{v, detail}}"""
    dialects = sorted({r["dialect"] for r in records})
    # every dialect a header could switch to must be present: detect headers cheaply, else ship the whole table
    need_all = any(("language" in "".join(map(chr, l))) for r in records for l in r["lines"][:50] if 35 in l)
    with Scratch(tag) as sc:
        write_dialects(sc, None if need_all else dialects)
        sc.write_json("docs.json", [{k: v for k, v in r.items() if k != "pickles_again"} for r in records])
        res = run_tlc(sc, "Trace_Pipeline", workers=min(CORES, max(1, len(records))), timeout=timeout)
    if "Parsing or semantic analysis failed" in res.out or res.generated == 0 or not res.finished or \
            any(e for e in res.errors if "Invariant" not in e):
        raise MachineryError("Trace_Pipeline did not complete:\n" + "\n".join(res.out.splitlines()[-40:]))
    results = {i + 1: {"name": r["name"], "step": None, "end": None} for i, r in enumerate(records)}
    for m in res.tuples("MISMATCH"):
        results[m["tid"]]["step"] = m
    for m in res.tuples("DONE"):
        results[m["tid"]]["end"] = m
    missing = [t for t, v in results.items() if v["end"] is None]
    if missing:
        raise MachineryError(f"{len(missing)} traces neither finished nor reported a mismatch, e.g. {results[missing[0]]['name']}\n" +
                             "\n".join(res.out.splitlines()[-30:]))
    return results, res


if __name__ == "__main__":
    import sys, json, time
    t0 = time.time()
    recs = [R.record(n, s) for n, s in corpus_sources()]
    print("recorded", len(recs), time.time() - t0)
    results, res = validate(recs)
    print("tlc", res.wall, res.generated, res.distinct)
    for t, v in results.items():
        if v["step"]:
            print("STEP", v["name"], json.dumps(v["step"])[:600])
        elif not all(v["end"]["v"].values()):
            print("END", v["name"], {k: x for k, x in v["end"]["v"].items() if not x}, json.dumps(v["end"]["detail"])[:400])
