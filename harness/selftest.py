#!/venv/bin/python
"""Demonstrates that the trace specification is bound to what was recorded: corrupt one recorded field (or drop one recorded event) and the
trace must be rejected, naming the clause.  Not a registered check; run by hand:  /venv/bin/python harness/selftest.py"""
import copy, json, sys, os
sys.path.insert(0, os.path.dirname(os.path.abspath(__file__)))
import record as R, pipeline as PL, attribute as AT

DOC = ("@t\nFeature: f\n  desc\n  Background:\n    Given b\n  Scenario Outline: <h>\n    When x <h>\n      | a | <h> |\n    Examples:\n      | h |\n      | 1 |\n")
BAD = "Feature: f\n  Scenario: s\n    Given x\n      | a |\n      | a | b |\njunk\n"


def corruptions():
    base, bad = R.record("base", DOC), R.record("bad", BAD)
    yield "unchanged", base, None
    r = copy.deepcopy(base); r["toks"][7]["items"][1]["col"] += 1; yield "cell column +1 in a delivered token", r, "tokens.fields"
    r = copy.deepcopy(base); r["toks"][1]["kw"] = r["toks"][1]["kw"][:-1]; yield "feature keyword shortened", r, "tokens.fields"
    r = copy.deepcopy(base); r["events"][3] = r["events"][3][1:]; yield "one end_rule event dropped", r, "events"
    r = copy.deepcopy(base); r["ast"]["feature"][0]["kids"][1]["steps"][0]["id"] += 1; yield "step id +1 in the AST", r, "end:ast"
    r = copy.deepcopy(base); r["ast"]["feature"][0]["desc"] = r["ast"]["feature"][0]["desc"][1:]; yield "description loses its first character", r, "end:ast"
    r = copy.deepcopy(base); r["pickles"][0]["steps"][0]["type"] = "Action"; yield "background pickle step type changed", r, "end:pickles"
    r = copy.deepcopy(base); r["pickles"][0]["tags"] = []; yield "pickle tags dropped", r, "end:pickles"
    r = copy.deepcopy(base); r["toks"] = r["toks"][:-1]; r["events"] = r["events"][:-1]; yield "EOF token not delivered", r, "tokens.extra"
    r = copy.deepcopy(bad); k = next(i for i, e in enumerate(r["errs"]) if e["kind"] == "ragged"); r["errs"][k]["line"] += 1; yield "ragged-table error one line late", r, "end:errors"
    r = copy.deepcopy(bad); k = next(i for i, e in enumerate(r["errs"]) if e["exp"]); r["errs"][k]["exp"] = r["errs"][k]["exp"][::-1]; yield "expected-token list reversed", r, "end:errors"
    r = copy.deepcopy(bad); r["errs"] = r["errs"][:1]; yield "second error not reported", r, "end:errors"


def main():
    cases = list(corruptions())
    results, res = PL.validate([c[1] for c in cases], tag="selftest")
    ok = True
    for (label, rec, want), (tid, r) in zip(cases, sorted(results.items())):
        found = [f[1].split("@")[0] for f in AT.trace_findings(r, rec)]
        good = (found == [] if want is None else any(want in f or f.replace("step:", "") == want for f in found))
        ok &= good
        print(("ok   " if good else "FAIL ") + f"{label:50s} -> {found or 'accepted'}")
    ok &= other_bindings()
    print("binding demonstrated" if ok else "BINDING NOT DEMONSTRATED")
    return 0 if ok else 1


def other_bindings():
    """the same for the smaller trace / replay bindings: Trace_Compile (compiler alone), Trace_Stream (per-source options), the scanner and command-line replays"""
    import astlevel as A, stream as S, engines as E
    ok = True
    items = A.record([("base", DOC, "en")], E.known_finding_input)[:2]
    broken = copy.deepcopy(items[1]); broken["pickles"][0]["tags"][0]["name"] = broken["pickles"][0]["tags"][0]["name"][:-1]; broken["name"] = "tag name shortened"
    late = copy.deepcopy(items[1]); late["nid_after"] += 1; late["name"] = "id counter after compile +1"
    v, _ = A.validate([items[0], broken, late])
    for tid, want in ((1, []), (2, ["operational", "c08"]), (3, ["counter"])):
        got = [k for k in ("operational", "counter", "c06", "c07", "c08", "c09", "c10") if not v[tid][k]]
        good = got == want
        ok &= good
        print(("ok   " if good else "FAIL ") + f"{'Trace_Compile: ' + v[tid]['name']:50s} -> {got or 'accepted'}")
    srcs = [("a.feature", "Feature: a\n  Scenario: s\n    Given x\n"), ("b.feature", "Feature: b\n  Scenario: s\n    Given y\n")]
    good_run, _ = S.record_run("options switched", srcs, [(True, True, True), (False, False, True)])
    lying = copy.deepcopy(good_run); lying["optseq"][1] = dict(source=True, ast=False, pickles=True); lying["name"] = "recorded options of the second source falsified"
    mism, done, _ = S.validate([good_run, lying], refshapes=S.reference_shapes())
    for rid, want in ((1, None), (2, "envelopes")):
        got = mism.get(rid, {}).get("clause")
        good = got == want
        ok &= good
        print(("ok   " if good else "FAIL ") + f"{'Trace_Stream: ' + [good_run, lying][rid - 1]['name']:50s} -> {got or 'accepted'}")
    return ok


if __name__ == "__main__":
    sys.exit(main())
