"""One function per property: which engines, which bounds, per tier."""
from __future__ import annotations
import json, sys
from common import Reporter, SEED
import engines as E, menus as M


def std_sources(tier, n_quick, n_thorough, dialects=None):
    n = n_quick if tier == "quick" else n_thorough
    return E.src_corpus() + E.src_generated(n, SEED, dialects) + E.src_noisy(n, SEED)


def c03(tier, rep):
    rep.extra["rule"] = ("menu: every sequence of <= N menu lines (distinct = distinct inputs, non-trivial = non-empty); traces: corpus + generated + "
                         "noisy documents (distinct by source text, non-trivial = more than one line)")
    E.menu(rep, M.BASE, 3 if tier == "quick" else 4, invariants=["Inv_C03"], label="base")
    E.traces(rep, E.record_all(std_sources(tier, 300, 3000)), "corpus+gen+noisy")


def _rows(rep, max_len, alpha, indent, tag, own_fields):
    import linelevel as LL
    rs, bad, res = LL.rows(max_len, alpha, indent, tag=tag)
    rep.add_tlc(f"MC_Cells[{tag},len<={max_len}]", res, f"{len(rs)} rows: machine = operational = declarative, round trip, read-back; replayed on GherkinLine.table_cells and Parser.parse")
    rep.traces += len(rs)
    for r in rs:
        rep.case(tuple(r["line"]), nontrivial=len(r["cells"]) > 0)
    rep.sample({"row": "".join(map(chr, rs[len(rs) // 2]["line"])), "cells": [[c["col"], "".join(map(chr, c["text"]))] for c in rs[len(rs) // 2]["cells"]]})
    for inv in sorted(set(res.invariant_violations)):
        rep.violation({"kind": "spec-invariant", "invariant": inv}, {"engine": "MC_Cells", "what": f"{inv} violated", "tlc_tail": res.out[-3000:]})
    for b in bad:
        if b["field"] in own_fields:
            rep.violation({"kind": "row:" + b["field"]}, {"engine": "rows", "what": "table_cells differs from the declarative cells", **b})


def _tags(rep, max_len, alpha, indent, tag):
    import linelevel as LL
    ls, bad, res = LL.tags(max_len, alpha, indent, tag=tag)
    rep.add_tlc(f"MC_Tags[{tag},len<={max_len}]", res, f"{len(ls)} tag lines: read-back, fault column; replayed on GherkinLine.tags and Parser.parse")
    rep.traces += len(ls)
    for r in ls:
        rep.case(tuple(r["line"]), nontrivial=len(r["items"]) > 0 or not r["ok"])
    rep.sample({"tag_line": "".join(map(chr, ls[len(ls) // 2]["line"])), "ok": ls[len(ls) // 2]["ok"], "items": [[c["col"], "".join(map(chr, c["text"]))] for c in ls[len(ls) // 2]["items"]]})
    for inv in sorted(set(res.invariant_violations)):
        rep.violation({"kind": "spec-invariant", "invariant": inv}, {"engine": "MC_Tags", "what": f"{inv} violated", "tlc_tail": res.out[-3000:]})
    for b in bad:
        rep.violation({"kind": b["cause"]}, {"engine": "tags", "what": "GherkinLine.tags differs from the specification", **b})


def c12(tier, rep):
    rep.extra["rule"] = ("every row over {pipe, backslash, 'n', blank, other} up to the length bound (distinct rows; non-trivial = at least one cell); "
                         "blank as space and tab, other as ASCII and non-BMP; plus tables in corpus/generated/noisy documents")
    _rows(rep, 6 if tier == "quick" else 8, (124, 92, 110, 32, 120), (32, 32), "ascii", ("count", "text", "col", "ast", "exception"))
    _rows(rep, 5 if tier == "quick" else 7, (124, 92, 110, 9, 128512), (9,), "tab_nonbmp", ("count", "text", "col", "ast", "exception"))
    E.menu(rep, M.TABLES, 4 if tier == "quick" else 5, max_errs=3, invariants=["Inv_C12"], label="tables")
    E.traces(rep, E.record_all(std_sources(tier, 300, 3000)), "corpus+gen+noisy")


def c04(tier, rep):
    rep.extra["rule"] = ("rows and tag lines over their character classes up to a length bound, ASCII/tab/non-BMP representatives; every "
                         "sequence of menu lines; corpus + generated + noisy documents with the read-back predicate evaluated on the implementation's AST and errors")
    _rows(rep, 6 if tier == "quick" else 8, (124, 92, 110, 32, 120), (32, 32), "ascii", ("col", "ast", "count"))
    _rows(rep, 5 if tier == "quick" else 7, (124, 92, 110, 9, 128512), (9, 32), "tab_nonbmp", ("col", "ast", "count"))
    _tags(rep, 6 if tier == "quick" else 7, (64, 32, 35, 120, 9), (32,), "ascii")
    _tags(rep, 5 if tier == "quick" else 6, (64, 12288, 35, 128512), (9, 9), "wide")
    E.menu(rep, M.BASE, 3 if tier == "quick" else 4, invariants=["Inv_C04"], label="base")
    E.traces(rep, E.record_all(std_sources(tier, 300, 3000)), "corpus+gen+noisy")


def c18(tier, rep):
    import l0 as L, os, glob
    from common import REPO
    rep.extra["rule"] = ("small-step kind-level parser: every sequence over the look-ahead alphabet after Feature/Scenario/Step (queue discipline, "
                         "partition); menu: every sequence of look-ahead-heavy real lines; traces: each delivered token and its printed listing")
    # queue discipline and partition on the small-step specification, replayed through the real Parser.parse
    n = 5 if tier == "quick" else 6
    cnt, bad, res, behs = L.replay_sequences(n, "LaAlphabet", "ScenarioPrefix", max_errs=2)
    rep.add_tlc(f"MC_L0[LaAlphabet,ScenarioPrefix,N={n}]", res, f"{cnt} kind sequences replayed; Inv_Fifo, Inv_Partition, Inv_Accepted, Inv_StackIsPath, Inv_Linear")
    rep.traces += cnt
    for inv in sorted(set(res.invariant_violations)):
        rep.violation({"kind": "spec-invariant", "invariant": inv}, {"engine": "MC_L0", "what": f"{inv} violated", "tlc_tail": res.out[-3000:]})
    for b in bad[:10]:
        rep.violation({"kind": "l0-replay:" + b["field"]}, {"engine": "l0", "what": "real Parser.parse differs from the small-step specification", "detail": b})
    rep.sample({"kinds": behs[len(behs) // 2]["input"], "delivered": behs[len(behs) // 2]["delivered"], "reported": behs[len(behs) // 2]["reported"]})
    E.menu(rep, M.LOOKAHEAD, 4 if tier == "quick" else 5, invariants=["Inv_C18"], label="lookahead")
    # the printed token listing equals the reference listings of the acceptance corpus
    import record as R
    for f in sorted(glob.glob(os.path.join(REPO, "testdata", "good", "*.feature"))):
        ref = f + ".tokens"
        if not os.path.exists(ref):
            continue
        src = open(f, encoding="utf8", newline="").read()
        got = "\n".join("".join(map(chr, l)) for l in R.token_listing(src)) + "\n"
        want = open(ref, encoding="utf8", newline="").read()
        rep.case(("tokens-file", os.path.basename(f)))
        if got != want:
            rep.violation({"kind": "reference-listing"}, {"engine": "corpus", "what": "token listing differs from the reference .tokens file", "file": f,
                                                          "first_diff": next(((a, b) for a, b in zip(got.split("\n"), want.split("\n")) if a != b), None)})
    E.traces(rep, E.record_all(std_sources(tier, 300, 3000), modes=("collect", "stop"), listing=True), "corpus+gen+noisy")


def c14(tier, rep):
    E.menu(rep, M.ERRORS, 3 if tier == "quick" else 4, max_errs=4, invariants=["Inv_C14", "Inv_C04"], label="errors")
    E.menu(rep, M.ERRORS, 3, mode="stop", max_errs=1, invariants=["Inv_C14"], label="errors-stop")
    E.traces(rep, E.record_all(std_sources(tier, 300, 3000), modes=("collect", "stop")), "corpus+gen+noisy")


def c01(tier, rep):
    E.menu(rep, M.BASE, 3 if tier == "quick" else 4, invariants=["Inv_C01"], label="base")
    E.traces(rep, E.record_all(std_sources(tier, 300, 3000), modes=("collect", "stop")), "corpus+gen+noisy")


def c02(tier, rep):
    import table as T, l0 as L
    from common import Scratch, run_tlc, MachineryError
    rep.extra["rule"] = ("programs: 6 generated parsers compared by bisimulation with the table derived from gherkin.berp; MC_Language: exact product "
                         "automaton; transitions: every (position, kind, look-ahead oracle); sequences: every kind sequence <= N through the real "
                         "Parser.parse with a kind-level stub matcher; traces: builder events of real documents")
    # (a) the grammar transcription and the derived table (TLC: derivation + structural ASSUMEs)
    dump, res = T.spec_table()
    rep.add_tlc("MC_Table", res, "table derived from Grammar!Rules; ASSUME Deterministic, EofFirstOtherLast, StackDiscipline, Sizes")
    for d in T.compare_grammar(dump, *T.berp_grammar()[:3]):
        rep.violation({"kind": "grammar-transcription"}, {"engine": "table", "what": "Grammar.tla Rules/Hints differ from /repo/gherkin.berp (the specification is stale)", "detail": d})
    # (b) bisimulation with parser.py and the five sibling generated parsers
    progs = []
    try:
        progs.append(T.extract_python())
    except T.NotExtractable as e:
        rep.assumptions.append(f"parser.py not of the generated shape ({e}); static comparison skipped, learned behaviour (c)/(d) decides")
    for l in T.SIBLINGS:
        progs.append(T.extract_sibling(l))
    pairs_py = None
    for p in progs:
        pairs, bad = T.bisimulate(dump, p)
        if p["lang"] == "python":
            pairs_py = pairs
        rep.case(("program", p["lang"]))
        for b in bad[:5]:
            rep.violation({"kind": "table-mismatch", "program": p["lang"]},
                          {"engine": "bisimulation", "what": f"{p['lang']} parser differs from the table derived from gherkin.berp", "detail": b})
    rep.extra["programs"] = len(progs)
    rep.sample({"program": "python/gherkin/parser.py", "states": len(progs[0]["states"]), "transitions": sum(len(s["trans"]) for s in progs[0]["states"].values())})
    # (c) language equivalence, exact
    with Scratch("lang") as sc:
        res = run_tlc(sc, "MC_Language", workers=4, timeout=600, extra=["-continue"])
    if not res.finished:
        raise MachineryError("MC_Language did not finish\n" + res.out[-2000:])
    rep.add_tlc("MC_Language", res, "parser table x grammar NFA product, history hidden: all lengths")
    for inv in sorted(set(res.invariant_violations)):
        rep.violation({"kind": "spec-invariant", "invariant": inv}, {"engine": "MC_Language", "what": f"{inv} violated", "tlc_tail": res.out[-3000:]})
    # (d) every transition of the real parser.py, driven through Parser.match_token
    if pairs_py is not None:
        cases, bad, cov = L.drive_transitions(dump, pairs_py)
        rep.extra["transitions_driven"] = cases
        rep.extra["transitions_covered"] = len(cov)
        rep.traces += cases
        for b in bad[:10]:
            rep.violation({"kind": "transition"}, {"engine": "drive", "what": "Parser.match_token differs from the derived table", "detail": b})
        rep.sample({"driven": "every (position, kind, oracle)", "cases": cases, "transitions_covered": len(cov)})
    # (e) whole kind sequences through the real Parser.parse
    for (n, alpha, prefix) in ([(4, "Kinds", "NoPrefix"), (4, "LaAlphabet", "ScenarioPrefix")] if tier == "quick" else [(5, "Kinds", "NoPrefix"), (6, "LaAlphabet", "ScenarioPrefix")]):
        cnt, bad, res, behs = L.replay_sequences(n, alpha, prefix, max_errs=1)
        rep.add_tlc(f"MC_L0[{alpha},{prefix},N={n}]", res, f"{cnt} kind sequences replayed through Parser.parse (stub matcher)")
        rep.traces += cnt
        for b in behs:
            rep.case(tuple(b["input"]))
        for inv in sorted(set(res.invariant_violations)):
            if inv in ("Inv_StackIsPath",):
                rep.violation({"kind": "spec-invariant", "invariant": inv}, {"engine": "MC_L0", "what": f"{inv} violated", "tlc_tail": res.out[-3000:]})
        for b in bad[:10]:
            rep.violation({"kind": "l0-replay:" + b["field"]}, {"engine": "l0", "what": "real Parser.parse differs from the small-step specification", "detail": b})
        rep.sample({"kinds": behs[len(behs) // 2]["input"], "events": behs[len(behs) // 2]["events"][:3]})
    # (f) real text: builder events and derivation predicate
    E.menu(rep, M.BASE, 3 if tier == "quick" else 4, invariants=["Inv_C02"], label="base")
    E.traces(rep, E.record_all(std_sources(tier, 200, 2000)), "corpus+gen+noisy")


def c05(tier, rep):
    import keywords as K, os, json
    from common import Scratch, run_tlc, write_dialects, MachineryError, REPO
    rep.extra["rule"] = ("complete: every dialect x role x listed keyword (1749 keyword instances) matched in every dialect on the specification "
                         "(MC_Keywords, 139,920 cases); every one of them as a real document, as default dialect and via header, validated against the spec; "
                         "header spellings from the pattern; foreign keywords; shipped table = master table")
    rep.extra["exhaustive"] = True
    # the language table shipped with the package is the master table
    a = open(os.path.join(REPO, "gherkin-languages.json"), "rb").read()
    b = open(os.path.join(REPO, "python", "gherkin", "gherkin-languages.json"), "rb").read()
    rep.case("shipped-table")
    if a != b:
        same = json.loads(a) == json.loads(b)
        rep.violation({"kind": "shipped-table"}, {"engine": "files", "what": "python/gherkin/gherkin-languages.json differs from /repo/gherkin-languages.json", "json_equal": same})
    from gherkin.dialect import DIALECTS
    if DIALECTS != json.loads(a):
        rep.violation({"kind": "loaded-table"}, {"engine": "files", "what": "gherkin.dialect.DIALECTS differs from the master table"})
    # the matcher of the specification against the whole table
    with Scratch("kw") as sc:
        write_dialects(sc)
        src = open(sc.path("MC_Keywords.tla")).read().replace("=" * 77, "ForeignSet == DOMAIN Dialects\n" + "=" * 77)
        sc.write("MC_Keywords.tla", src)
        sc.write("MC_Keywords.cfg", "SPECIFICATION Spec\nCONSTANT Foreign <- ForeignSet\nINVARIANT Inv_Complete\nINVARIANT Inv_Sound\nINVARIANT Inv_Types\nCHECK_DEADLOCK FALSE\n")
        res = run_tlc(sc, "MC_Keywords", timeout=1200, extra=["-continue"])
    if not res.finished:
        raise MachineryError("MC_Keywords did not finish\n" + res.out[-2000:])
    rep.add_tlc("MC_Keywords", res, "every listed keyword of every dialect matched in every dialect: Inv_Complete, Inv_Sound, Inv_Types")
    for inv in sorted(set(res.invariant_violations)):
        rep.violation({"kind": "spec-invariant", "invariant": inv}, {"engine": "MC_Keywords", "what": f"{inv} violated", "tlc_tail": res.out[-3000:]})
    # every keyword as a document through the real parser
    cases = K.all_cases(1 if tier == "quick" else 4) + K.foreign_cases(SEED, 300 if tier == "quick" else 3000) + K.header_cases(SEED, 400 if tier == "quick" else None)
    E.traces(rep, E.record_all(cases, listing=True), "keywords+foreign+headers", batch=2500)
    E.menu(rep, M.DIALECT, 4 if tier == "quick" else 5, invariants=["Inv_C05"], label="dialect")
    if tier == "thorough":
        E.traces(rep, E.record_all(E.src_generated(2000, SEED, sorted(json.loads(a)))), "generated-multidialect")


CHECKS = {"C02": c02, "C05": c05, "C12": c12, "C01": c01, "C03": c03, "C04": c04, "C14": c14, "C18": c18}


def replay(prop: str, path: str) -> int:
    """Re-run the single case stored in a replay file through the engine that produced it."""
    import record as R, pipeline as PL, attribute as AT
    with open(path) as fh:
        v = json.load(fh)
    if "source" not in v:
        print(json.dumps(v, indent=1)[:3000])
        return 1
    rec = R.record("replay", v["source"], v.get("dialect", "en"), v.get("mode", "collect"))
    results, res = PL.validate([rec], tag="replay")
    f = [x for x in AT.trace_findings(results[1], rec) if prop in x[0]]
    for own, label, detail in f:
        print(f"VIOLATION property={prop} replay={path}")
        print(label, json.dumps(detail)[:2000])
    return 1 if f else 0
