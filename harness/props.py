"""One function per property: which engines, which bounds, per tier."""
from __future__ import annotations
import json, sys
from common import Reporter, SEED
import engines as E, menus as M


def std_sources(tier, n_quick, n_thorough, dialects=None):
    n = n_quick if tier == "quick" else n_thorough
    return E.src_corpus() + E.src_generated(n, SEED, dialects) + E.src_noisy(n, SEED)


def c03(tier, rep):
    rep.extra["rule"] = ("menu: every sequence of <= N menu lines (distinct = distinct inputs, non-trivial = non-empty); traces: corpus + generated + "
                         "noisy documents (distinct by source text, non-trivial = more than one line)")
    E.menu(rep, M.BASE, 3 if tier == "quick" else 4, invariants=["Inv_C03"], label="base")
    E.traces(rep, E.record_all(std_sources(tier, 300, 3000)), "corpus+gen+noisy")


def c04(tier, rep):
    E.menu(rep, M.BASE, 3 if tier == "quick" else 4, invariants=["Inv_C04"], label="base")
    E.traces(rep, E.record_all(std_sources(tier, 300, 3000)), "corpus+gen+noisy")


def c18(tier, rep):
    import l0 as L, os, glob
    from common import REPO
    rep.extra["rule"] = ("small-step kind-level parser: every sequence over the look-ahead alphabet after Feature/Scenario/Step (queue discipline, "
                         "partition); menu: every sequence of look-ahead-heavy real lines; traces: each delivered token and its printed listing")
    # queue discipline and partition on the small-step specification, replayed through the real Parser.parse
    n = 5 if tier == "quick" else 6
    cnt, bad, res, behs = L.replay_sequences(n, "LaAlphabet", "ScenarioPrefix", max_errs=2)
    rep.add_tlc(f"MC_L0[LaAlphabet,ScenarioPrefix,N={n}]", res, f"{cnt} kind sequences replayed; Inv_Fifo, Inv_Partition, Inv_Accepted, Inv_StackIsPath, Inv_Linear")
    rep.traces += cnt
    for inv in sorted(set(res.invariant_violations)):
        rep.violation({"kind": "spec-invariant", "invariant": inv}, {"engine": "MC_L0", "what": f"{inv} violated", "tlc_tail": res.out[-3000:]})
    for b in bad[:10]:
        rep.violation({"kind": "l0-replay:" + b["field"]}, {"engine": "l0", "what": "real Parser.parse differs from the small-step specification", "detail": b})
    rep.sample({"kinds": behs[len(behs) // 2]["input"], "delivered": behs[len(behs) // 2]["delivered"], "reported": behs[len(behs) // 2]["reported"]})
    E.menu(rep, M.LOOKAHEAD, 4 if tier == "quick" else 5, invariants=["Inv_C18"], label="lookahead")
    # the printed token listing equals the reference listings of the acceptance corpus
    import record as R
    for f in sorted(glob.glob(os.path.join(REPO, "testdata", "good", "*.feature"))):
        ref = f + ".tokens"
        if not os.path.exists(ref):
            continue
        src = open(f, encoding="utf8", newline="").read()
        got = "\n".join("".join(map(chr, l)) for l in R.token_listing(src)) + "\n"
        want = open(ref, encoding="utf8", newline="").read()
        rep.case(("tokens-file", os.path.basename(f)))
        if got != want:
            rep.violation({"kind": "reference-listing"}, {"engine": "corpus", "what": "token listing differs from the reference .tokens file", "file": f,
                                                          "first_diff": next(((a, b) for a, b in zip(got.split("\n"), want.split("\n")) if a != b), None)})
    E.traces(rep, E.record_all(std_sources(tier, 300, 3000), modes=("collect", "stop"), listing=True), "corpus+gen+noisy")


def c14(tier, rep):
    E.menu(rep, M.ERRORS, 3 if tier == "quick" else 4, max_errs=4, invariants=["Inv_C14", "Inv_C04"], label="errors")
    E.menu(rep, M.ERRORS, 3, mode="stop", max_errs=1, invariants=["Inv_C14"], label="errors-stop")
    E.traces(rep, E.record_all(std_sources(tier, 300, 3000), modes=("collect", "stop")), "corpus+gen+noisy")


def c01(tier, rep):
    E.menu(rep, M.BASE, 3 if tier == "quick" else 4, invariants=["Inv_C01"], label="base")
    E.traces(rep, E.record_all(std_sources(tier, 300, 3000), modes=("collect", "stop")), "corpus+gen+noisy")


def c02(tier, rep):
    import table as T, l0 as L
    from common import Scratch, run_tlc, MachineryError
    rep.extra["rule"] = ("programs: 6 generated parsers compared by bisimulation with the table derived from gherkin.berp; MC_Language: exact product "
                         "automaton; transitions: every (position, kind, look-ahead oracle); sequences: every kind sequence <= N through the real "
                         "Parser.parse with a kind-level stub matcher; traces: builder events of real documents")
    # (a) the grammar transcription and the derived table (TLC: derivation + structural ASSUMEs)
    dump, res = T.spec_table()
    rep.add_tlc("MC_Table", res, "table derived from Grammar!Rules; ASSUME Deterministic, EofFirstOtherLast, StackDiscipline, Sizes")
    for d in T.compare_grammar(dump, *T.berp_grammar()[:3]):
        rep.violation({"kind": "grammar-transcription"}, {"engine": "table", "what": "Grammar.tla Rules/Hints differ from /repo/gherkin.berp (the specification is stale)", "detail": d})
    # (b) bisimulation with parser.py and the five sibling generated parsers
    progs = []
    try:
        progs.append(T.extract_python())
    except T.NotExtractable as e:
        rep.assumptions.append(f"parser.py not of the generated shape ({e}); static comparison skipped, learned behaviour (c)/(d) decides")
    for l in T.SIBLINGS:
        progs.append(T.extract_sibling(l))
    pairs_py = None
    for p in progs:
        pairs, bad = T.bisimulate(dump, p)
        if p["lang"] == "python":
            pairs_py = pairs
        rep.case(("program", p["lang"]))
        for b in bad[:5]:
            rep.violation({"kind": "table-mismatch", "program": p["lang"]},
                          {"engine": "bisimulation", "what": f"{p['lang']} parser differs from the table derived from gherkin.berp", "detail": b})
    rep.extra["programs"] = len(progs)
    rep.sample({"program": "python/gherkin/parser.py", "states": len(progs[0]["states"]), "transitions": sum(len(s["trans"]) for s in progs[0]["states"].values())})
    # (c) language equivalence, exact
    with Scratch("lang") as sc:
        res = run_tlc(sc, "MC_Language", workers=4, timeout=600, extra=["-continue"])
    if not res.finished:
        raise MachineryError("MC_Language did not finish\n" + res.out[-2000:])
    rep.add_tlc("MC_Language", res, "parser table x grammar NFA product, history hidden: all lengths")
    for inv in sorted(set(res.invariant_violations)):
        rep.violation({"kind": "spec-invariant", "invariant": inv}, {"engine": "MC_Language", "what": f"{inv} violated", "tlc_tail": res.out[-3000:]})
    # (d) every transition of the real parser.py, driven through Parser.match_token
    if pairs_py is not None:
        cases, bad, cov = L.drive_transitions(dump, pairs_py)
        rep.extra["transitions_driven"] = cases
        rep.extra["transitions_covered"] = len(cov)
        rep.traces += cases
        for b in bad[:10]:
            rep.violation({"kind": "transition"}, {"engine": "drive", "what": "Parser.match_token differs from the derived table", "detail": b})
        rep.sample({"driven": "every (position, kind, oracle)", "cases": cases, "transitions_covered": len(cov)})
    # (e) whole kind sequences through the real Parser.parse
    for (n, alpha, prefix) in ([(4, "Kinds", "NoPrefix"), (4, "LaAlphabet", "ScenarioPrefix")] if tier == "quick" else [(5, "Kinds", "NoPrefix"), (6, "LaAlphabet", "ScenarioPrefix")]):
        cnt, bad, res, behs = L.replay_sequences(n, alpha, prefix, max_errs=1)
        rep.add_tlc(f"MC_L0[{alpha},{prefix},N={n}]", res, f"{cnt} kind sequences replayed through Parser.parse (stub matcher)")
        rep.traces += cnt
        for b in behs:
            rep.case(tuple(b["input"]))
        for inv in sorted(set(res.invariant_violations)):
            if inv in ("Inv_StackIsPath",):
                rep.violation({"kind": "spec-invariant", "invariant": inv}, {"engine": "MC_L0", "what": f"{inv} violated", "tlc_tail": res.out[-3000:]})
        for b in bad[:10]:
            rep.violation({"kind": "l0-replay:" + b["field"]}, {"engine": "l0", "what": "real Parser.parse differs from the small-step specification", "detail": b})
        rep.sample({"kinds": behs[len(behs) // 2]["input"], "events": behs[len(behs) // 2]["events"][:3]})
    # (f) real text: builder events and derivation predicate
    E.menu(rep, M.BASE, 3 if tier == "quick" else 4, invariants=["Inv_C02"], label="base")
    E.traces(rep, E.record_all(std_sources(tier, 200, 2000)), "corpus+gen+noisy")


CHECKS = {"C02": c02, "C01": c01, "C03": c03, "C04": c04, "C14": c14, "C18": c18}


def replay(prop: str, path: str) -> int:
    """Re-run the single case stored in a replay file through the engine that produced it."""
    import record as R, pipeline as PL, attribute as AT
    with open(path) as fh:
        v = json.load(fh)
    if "source" not in v:
        print(json.dumps(v, indent=1)[:3000])
        return 1
    rec = R.record("replay", v["source"], v.get("dialect", "en"), v.get("mode", "collect"))
    results, res = PL.validate([rec], tag="replay")
    f = [x for x in AT.trace_findings(results[1], rec) if prop in x[0]]
    for own, label, detail in f:
        print(f"VIOLATION property={prop} replay={path}")
        print(label, json.dumps(detail)[:2000])
    return 1 if f else 0
