"""One function per property: which engines, which bounds, per tier."""
from __future__ import annotations
import json, sys
from common import Reporter, SEED
import engines as E, menus as M


def std_sources(tier, n_quick, n_thorough, dialects=None):
    n = n_quick if tier == "quick" else n_thorough
    return E.src_corpus() + E.src_generated(n, SEED, dialects) + E.src_noisy(n, SEED)


def c03(tier, rep):
    rep.extra["rule"] = ("menu: every sequence of <= N menu lines (distinct = distinct inputs, non-trivial = non-empty); traces: corpus + generated + "
                         "noisy documents (distinct by source text, non-trivial = more than one line)")
    E.menu(rep, M.BASE, 3 if tier == "quick" else 4, invariants=["Inv_C03"], label="base")
    E.traces(rep, E.record_all(std_sources(tier, 300, 3000)), "corpus+gen+noisy")


def c04(tier, rep):
    E.menu(rep, M.BASE, 3 if tier == "quick" else 4, invariants=["Inv_C04"], label="base")
    E.traces(rep, E.record_all(std_sources(tier, 300, 3000)), "corpus+gen+noisy")


def c18(tier, rep):
    E.menu(rep, M.LOOKAHEAD, 4 if tier == "quick" else 5, invariants=["Inv_C18"], label="lookahead")
    E.traces(rep, E.record_all(std_sources(tier, 300, 3000), modes=("collect", "stop")), "corpus+gen+noisy")


def c14(tier, rep):
    E.menu(rep, M.ERRORS, 3 if tier == "quick" else 4, max_errs=4, invariants=["Inv_C14", "Inv_C04"], label="errors")
    E.menu(rep, M.ERRORS, 3, mode="stop", max_errs=1, invariants=["Inv_C14"], label="errors-stop")
    E.traces(rep, E.record_all(std_sources(tier, 300, 3000), modes=("collect", "stop")), "corpus+gen+noisy")


def c01(tier, rep):
    E.menu(rep, M.BASE, 3 if tier == "quick" else 4, invariants=["Inv_C01"], label="base")
    E.traces(rep, E.record_all(std_sources(tier, 300, 3000), modes=("collect", "stop")), "corpus+gen+noisy")


CHECKS = {"C01": c01, "C03": c03, "C04": c04, "C14": c14, "C18": c18}


def replay(prop: str, path: str) -> int:
    """Re-run the single case stored in a replay file through the engine that produced it."""
    import record as R, pipeline as PL, attribute as AT
    with open(path) as fh:
        v = json.load(fh)
    if "source" not in v:
        print(json.dumps(v, indent=1)[:3000])
        return 1
    rec = R.record("replay", v["source"], v.get("dialect", "en"), v.get("mode", "collect"))
    results, res = PL.validate([rec], tag="replay")
    f = [x for x in AT.trace_findings(results[1], rec) if prop in x[0]]
    for own, label, detail in f:
        print(f"VIOLATION property={prop} replay={path}")
        print(label, json.dumps(detail)[:2000])
    return 1 if f else 0
