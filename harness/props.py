"""One function per property: which engines, which bounds, per tier."""
from __future__ import annotations
import json, sys
from common import Reporter, SEED
import engines as E, menus as M


ALL_PURPOSE_DIALECTS = ["cy-GB", "en-Scouse", "mk-Cyrl", "sr-Latn", "zh-CN", "zh-TW", "fr", "em", "ht", "en-old", "ru", "ar", "ja", "en-tx", "sl", "af", "nl"]


def std_sources(tier, n_quick, n_thorough, dialects=None):
    """The standard families every trace-based check validates: acceptance corpus, limit / look-ahead / state-leaving documents, generated
    English documents, noisy mutations of them, and generated documents in other dialects (by header and as the matcher's default)."""
    n = n_quick if tier == "quick" else n_thorough
    import keywords as K
    return (E.src_corpus() + E.src_limits() + E.src_generated(n, SEED, dialects) + E.src_noisy(n, SEED)
            + (E.src_generated(max(20, n // 6), SEED + 11, ALL_PURPOSE_DIALECTS) + K.odd_cases() if dialects is None else []))


def c03(tier, rep):
    rep.extra["rule"] = ("menu: every sequence of <= N menu lines (distinct = distinct inputs, non-trivial = non-empty); traces: corpus + generated + "
                         "noisy documents (distinct by source text, non-trivial = more than one line)")
    E.menu(rep, M.BASE, 3 if tier == "quick" else 4, invariants=["Inv_C03"], label="base")
    E.grow(rep, M.STRUCT, [([], 6 if tier == "quick" else 7), (PFX_TWO_RULES, 2)], invariants=["Inv_C03"], label="struct")
    E.grow(rep, M.DOCSTRING, [([1, 2, 3, 4], 2 if tier == "quick" else 3), ([1, 2, 3, 5], 2)], invariants=["Inv_C03"], label="docstring", no_free_text=False)
    E.reuse_pass(rep, E.src_corpus() + E.src_limits() + E.src_generated(60, SEED), "reuse")
    E.traces(rep, E.record_all(std_sources(tier, 300, 3000)), "corpus+gen+noisy")
    E.usage_variants_pass(rep, E.src_corpus() + E.src_limits() + E.src_generated(60, SEED + 4))


def _rows(rep, max_len, alpha, indent, tag, own_fields):
    import linelevel as LL
    rs, bad, res = LL.rows(max_len, alpha, indent, tag=tag)
    rep.add_tlc(f"MC_Cells[{tag},len<={max_len}]", res, f"{len(rs)} rows: machine = operational = declarative, round trip, read-back; replayed on GherkinLine.table_cells and Parser.parse")
    rep.traces += len(rs)
    for r in rs:
        rep.case(tuple(r["line"]), nontrivial=len(r["cells"]) > 0)
    rep.sample({"row": "".join(map(chr, rs[len(rs) // 2]["line"])), "cells": [[c["col"], "".join(map(chr, c["text"]))] for c in rs[len(rs) // 2]["cells"]]})
    for inv in sorted(set(res.invariant_violations)):
        rep.violation({"kind": "spec-invariant", "invariant": inv}, {"engine": "MC_Cells", "what": f"{inv} violated", "tlc_tail": res.out[-3000:]})
    for b in bad:
        if b["field"] in own_fields:
            rep.violation({"kind": "row:" + b["field"]}, {"engine": "rows", "what": "table_cells differs from the declarative cells", **b})


def _tags(rep, max_len, alpha, indent, tag):
    import linelevel as LL
    ls, bad, res = LL.tags(max_len, alpha, indent, tag=tag)
    rep.add_tlc(f"MC_Tags[{tag},len<={max_len}]", res, f"{len(ls)} tag lines: read-back, fault column; replayed on GherkinLine.tags and Parser.parse")
    rep.traces += len(ls)
    for r in ls:
        rep.case(tuple(r["line"]), nontrivial=len(r["items"]) > 0 or not r["ok"])
    rep.sample({"tag_line": "".join(map(chr, ls[len(ls) // 2]["line"])), "ok": ls[len(ls) // 2]["ok"], "items": [[c["col"], "".join(map(chr, c["text"]))] for c in ls[len(ls) // 2]["items"]]})
    for inv in sorted(set(res.invariant_violations)):
        rep.violation({"kind": "spec-invariant", "invariant": inv}, {"engine": "MC_Tags", "what": f"{inv} violated", "tlc_tail": res.out[-3000:]})
    for b in bad:
        rep.violation({"kind": b["cause"]}, {"engine": "tags", "what": "GherkinLine.tags differs from the specification", **b})


def c12(tier, rep):
    rep.extra["rule"] = ("every row over {pipe, backslash, 'n', blank, other} up to the length bound (distinct rows; non-trivial = at least one cell); "
                         "blank as space and tab, other as ASCII and non-BMP; plus tables in corpus/generated/noisy documents")
    _rows(rep, 6 if tier == "quick" else 8, (124, 92, 110, 32, 120), (32, 32), "ascii", ("count", "text", "col", "ast", "exception"))
    _rows(rep, 5 if tier == "quick" else 7, (124, 92, 110, 9, 128512), (9,), "tab_nonbmp", ("count", "text", "col", "ast", "exception"))
    _rows(rep, 4 if tier == "quick" else 6, (124, 92, 110, 12288, 233), (160,), "exotic_blanks", ("count", "text", "col", "ast", "exception"))
    E.menu(rep, M.TABLES, 4, max_errs=3, invariants=["Inv_C12"], label="tables")
    if tier == "thorough":
        E.menu(rep, M.TABLES[:12], 5, max_errs=3, invariants=["Inv_C12"], label="tables-deep")     # (TLC refuses sets of more than 10^6 initial choices: 12^5)
    # ragged tables of up to 4 rows with 1, 2 and 3 cells: data table after a step, examples table after its header line
    E.menu(rep, [M.TABLES[i] for i in (0, 1, 2, 3, 4, 5, 7, 12, 13, 14, 15)], 4 if tier == "thorough" else 3, max_errs=3, invariants=["Inv_C12"], label="ragged-data", prefix=[1, 2, 3])
    E.menu(rep, [M.TABLES[i] for i in (0, 1, 2, 3, 4, 5, 7, 12, 14)], 3 if tier == "quick" else 4, max_errs=3, invariants=["Inv_C12"], label="ragged-examples", prefix=[1, 2, 3, 4])
    _rows(rep, 5 if tier == "quick" else 6, (124, 92, 110, 116, 32), (32,), "letter_t", ("count", "text", "col", "ast", "exception"))
    _rows(rep, 4 if tier == "quick" else 5, (124, 92, 8203, 65279, 32), (32,), "invisible", ("count", "text", "col", "ast", "exception"))
    _rows(rep, 5 if tier == "quick" else 6, (124, 101, 769, 32, 3635), (32,), "combining", ("count", "text", "col", "ast", "exception"))
    _rows(rep, 5 if tier == "quick" else 6, (124, 35, 32, 9, 120), (32,), "hash", ("count", "text", "col", "ast", "exception"))
    _rows(rep, 5 if tier == "quick" else 6, (124, 92, 0, 1, 110), (32,), "nul", ("count", "text", "col", "ast", "exception"))
    # "a table whose rows differ in cell count is rejected with an error": also through the stream layer, whatever is printed
    from props_total import _stream_rejection
    _stream_rejection(rep, [x for x in E.src_limits() + E.src_corpus() + E.src_noisy(200, SEED + 5) if "|" in x[1]], only_kind="inconsistent cell count")
    E.traces(rep, E.record_all(std_sources(tier, 300, 3000)), "corpus+gen+noisy")


def c04(tier, rep):
    rep.extra["rule"] = ("rows and tag lines over their character classes up to a length bound, ASCII/tab/non-BMP representatives; every "
                         "sequence of menu lines; corpus + generated + noisy documents with the read-back predicate evaluated on the implementation's AST and errors")
    _rows(rep, 6 if tier == "quick" else 8, (124, 92, 110, 32, 120), (32, 32), "ascii", ("col", "ast", "count"))
    _rows(rep, 5 if tier == "quick" else 7, (124, 92, 110, 9, 128512), (9, 32), "tab_nonbmp", ("col", "ast", "count"))
    _tags(rep, 6 if tier == "quick" else 7, (64, 32, 35, 120, 9), (32,), "ascii")
    _tags(rep, 5 if tier == "quick" else 6, (64, 12288, 35, 128512), (9, 9), "wide")
    _rows(rep, 5 if tier == "quick" else 6, (124, 101, 769, 32, 3635), (32,), "combining", ("col", "ast", "count"))
    E.menu(rep, M.BASE, 3 if tier == "quick" else 4, invariants=["Inv_C04"], label="base")
    E.traces(rep, E.record_all(std_sources(tier, 300, 3000)), "corpus+gen+noisy")
    E.usage_variants_pass(rep, E.src_corpus() + E.src_limits() + E.src_generated(60, SEED + 4))


def c18(tier, rep):
    import l0 as L, os, glob
    from common import REPO
    rep.extra["rule"] = ("small-step kind-level parser: every sequence over the look-ahead alphabet after Feature/Scenario/Step (queue discipline, "
                         "partition); menu: every sequence of look-ahead-heavy real lines; traces: each delivered token and its printed listing")
    # queue discipline and partition on the small-step specification, replayed through the real Parser.parse
    n = 5 if tier == "quick" else 6
    cnt, bad, res, behs = L.replay_sequences(n, "LaAlphabet", "ScenarioPrefix", max_errs=2)
    rep.add_tlc(f"MC_L0[LaAlphabet,ScenarioPrefix,N={n}]", res, f"{cnt} kind sequences replayed; Inv_Fifo, Inv_Partition, Inv_Accepted, Inv_StackIsPath, Inv_Linear; step properties " + ", ".join(L.ACTION_PROPERTIES))
    rep.traces += cnt
    for inv in sorted(set(res.invariant_violations)):
        rep.violation({"kind": "spec-invariant", "invariant": inv}, {"engine": "MC_L0", "what": f"{inv} violated", "tlc_tail": res.out[-3000:]})
    for b in bad[:10]:
        rep.violation({"kind": "l0-replay:" + b["field"]}, {"engine": "l0", "what": "real Parser.parse differs from the small-step specification", "detail": b})
    rep.sample({"kinds": behs[len(behs) // 2]["input"], "delivered": behs[len(behs) // 2]["delivered"], "reported": behs[len(behs) // 2]["reported"]})
    E.menu(rep, M.LOOKAHEAD, 4 if tier == "quick" else 5, invariants=["Inv_C18"], label="lookahead")
    if tier == "thorough":
        E.layering(rep, M.LOOKAHEAD, 4, label="lookahead")
    # the printed token listing equals the reference listings of the acceptance corpus
    import record as R
    for f in sorted(glob.glob(os.path.join(REPO, "testdata", "good", "*.feature"))):
        ref = f + ".tokens"
        if not os.path.exists(ref):
            continue
        src = open(f, encoding="utf8", newline="").read()
        got = "\n".join("".join(map(chr, l)) for l in R.token_listing(src)) + "\n"
        want = open(ref, encoding="utf8", newline="").read()
        rep.case(("tokens-file", os.path.basename(f)))
        if got != want:
            rep.violation({"kind": "reference-listing"}, {"engine": "corpus", "what": "token listing differs from the reference .tokens file", "file": f,
                                                          "first_diff": next(((a, b) for a, b in zip(got.split("\n"), want.split("\n")) if a != b), None)})
    E.traces(rep, E.record_all(std_sources(tier, 300, 3000), modes=("collect", "stop"), listing=True), "corpus+gen+noisy")
    E.usage_variants_pass(rep, E.src_corpus() + E.src_limits() + E.src_generated(60, SEED + 4))
    # ... and through ONE parser / formatter pair re-used for all files, rejected ones in between (scripts/generate_tokens.py does this)
    from gherkin.parser import Parser
    from gherkin.token_formatter_builder import TokenFormatterBuilder
    from gherkin.token_scanner import TokenScanner
    from gherkin.errors import ParserError
    shared = Parser(TokenFormatterBuilder())
    files = sorted(glob.glob(os.path.join(REPO, "testdata", "*", "*.feature")))
    order = [f for pair in zip(files[::2], files[1::2][::-1]) for f in pair]
    for f in order:
        src = open(f, encoding="utf8", newline="").read()
        try:
            got = shared.parse(TokenScanner(src)) + "\n"
        except ParserError:
            continue
        ref = f + ".tokens"
        rep.case(("tokens-file-shared-parser", os.path.basename(f)))
        if os.path.exists(ref) and got != open(ref, encoding="utf8", newline="").read():
            rep.violation({"kind": "reference-listing-reused-parser"}, {"engine": "corpus", "what": "token listing from a re-used parser/formatter differs from the reference .tokens file",
                                                                         "file": f, "lines_got": got.count("\n"), "lines_want": open(ref, encoding="utf8").read().count("\n")})


from props_total import c01, c14  # noqa: E402


def c02(tier, rep):
    import table as T, l0 as L
    from common import Scratch, run_tlc, MachineryError
    rep.extra["rule"] = ("programs: 6 generated parsers compared by bisimulation with the table derived from gherkin.berp; MC_Language: exact product "
                         "automaton; transitions: every (position, kind, look-ahead oracle); sequences: every kind sequence <= N through the real "
                         "Parser.parse with a kind-level stub matcher; traces: builder events of real documents")
    # (a) the grammar transcription and the derived table (TLC: derivation + structural ASSUMEs)
    dump, res = T.spec_table()
    rep.add_tlc("MC_Table", res, "table derived from Grammar!Rules; ASSUME Deterministic, EofFirstOtherLast, StackDiscipline, Sizes")
    for d in T.compare_grammar(dump, *T.berp_grammar()[:3]):
        rep.violation({"kind": "grammar-transcription"}, {"engine": "table", "what": "Grammar.tla Rules/Hints differ from /repo/gherkin.berp (the specification is stale)", "detail": d})
    # (b) the siblings' generated parsers (read as text) and parser.py are bisimilar to the derived table.  For parser.py the authority is its
    #     BEHAVIOUR: the machine is learned through Parser.match_token (d); its text is read as well, but a parser.py that is no longer of the
    #     generated shape (or is read differently although it behaves the same) is not an alarm.
    progs = [T.extract_sibling(l) for l in T.SIBLINGS]
    static_py = None
    try:
        static_py = T.bisimulate(dump, T.extract_python())
    except Exception as e:  # noqa: BLE001 -- NotExtractable or a shape the reader does not understand
        rep.assumptions.append(f"parser.py not read statically ({type(e).__name__}: {str(e)[:80]}); the learned machine decides")
    for p in progs:
        pairs, bad = T.bisimulate(dump, p)
        rep.case(("program", p["lang"]))
        for b in bad[:5]:
            rep.violation({"kind": "table-mismatch", "program": p["lang"]},
                          {"engine": "bisimulation", "what": f"{p['lang']} parser differs from the table derived from gherkin.berp", "detail": b})
    rep.extra["programs"] = len(progs) + 1
    rep.sample({"program": "java/.../Parser.java", "states": len(progs[0]["states"]), "transitions": sum(len(s["trans"]) for s in progs[0]["states"].values())})
    # (c) language equivalence, exact
    with Scratch("lang") as sc:
        res = run_tlc(sc, "MC_Language", workers=4, timeout=600, extra=["-continue"])
    if not res.finished:
        raise MachineryError("MC_Language did not finish\n" + res.out[-2000:])
    rep.add_tlc("MC_Language", res, "parser table x grammar NFA product, history hidden: all lengths")
    for inv in sorted(set(res.invariant_violations)):
        rep.violation({"kind": "spec-invariant", "invariant": inv}, {"engine": "MC_Language", "what": f"{inv} violated", "tlc_tail": res.out[-3000:]})
    # (d) parser.py as a program: its state machine learned through Parser.match_token and compared with the derived table
    pairs_py, bad, cases, cov = L.learn_and_compare(dump)
    rep.case(("program", "python (learned)"))
    rep.extra["transitions_driven"] = cases
    rep.extra["transitions_covered"] = len(cov)
    rep.extra["python_states_learned"] = len(set(pairs_py.values()))
    rep.traces += cases
    for b in bad[:10]:
        rep.violation({"kind": "transition"}, {"engine": "learned-table", "what": "the Python parser's machine (learned through Parser.match_token) differs from the derived table", "detail": b})
    rep.sample({"driven": "every (position, kind, oracle)", "cases": cases, "transitions_covered": len(cov), "states": len(set(pairs_py.values()))})
    if static_py is not None and static_py[1] and not bad:
        rep.assumptions.append("static reading of parser.py disagrees with the derived table although the learned machine agrees (parser.py is not of the generated shape?): " + str(static_py[1][0])[:200])
    elif static_py is not None:
        rep.extra["parser_py_static_reading_agrees"] = not static_py[1]
    # (e) whole kind sequences through the real Parser.parse
    for (n, alpha, prefix) in ([(4, "Kinds", "NoPrefix"), (4, "LaAlphabet", "ScenarioPrefix")] if tier == "quick" else [(5, "Kinds", "NoPrefix"), (6, "LaAlphabet", "ScenarioPrefix")]):
        cnt, bad, res, behs = L.replay_sequences(n, alpha, prefix, max_errs=1)
        rep.add_tlc(f"MC_L0[{alpha},{prefix},N={n}]", res, f"{cnt} kind sequences replayed through Parser.parse (stub matcher)")
        rep.traces += cnt
        for b in behs:
            rep.case(tuple(b["input"]))
        for inv in sorted(set(res.invariant_violations)):
            if inv in ("Inv_StackIsPath", "Prop_MoveOnlyOnDelivery"):
                rep.violation({"kind": "spec-invariant", "invariant": inv}, {"engine": "MC_L0", "what": f"{inv} violated", "tlc_tail": res.out[-3000:]})
        for b in bad[:10]:
            rep.violation({"kind": "l0-replay:" + b["field"]}, {"engine": "l0", "what": "real Parser.parse differs from the small-step specification", "detail": b})
        rep.sample({"kinds": behs[len(behs) // 2]["input"], "events": behs[len(behs) // 2]["events"][:3]})
    # (f) the kind-level results transfer to real text: both grains of the parser specification agree
    E.layering(rep, M.BASE, 3 if tier == "quick" else 4, label="base")
    # (g) real text: builder events and derivation predicate
    E.menu(rep, M.BASE, 3 if tier == "quick" else 4, invariants=["Inv_C02"], label="base")
    E.traces(rep, E.record_all(std_sources(tier, 200, 2000), iff=150 if tier == "quick" else 1500), "corpus+gen+noisy")


def c05(tier, rep):
    import keywords as K, os, json
    from common import Scratch, run_tlc, write_dialects, MachineryError, REPO
    rep.extra["rule"] = ("complete: every dialect x role x listed keyword (1749 keyword instances) matched in every dialect on the specification "
                         "(MC_Keywords, 139,920 cases); every one of them as a real document, as default dialect and via header, validated against the spec; "
                         "header spellings from the pattern; foreign keywords; shipped table = master table")
    rep.extra["exhaustive"] = True
    # the language table shipped with the package is the master table
    a = open(os.path.join(REPO, "gherkin-languages.json"), "rb").read()
    b = open(os.path.join(REPO, "python", "gherkin", "gherkin-languages.json"), "rb").read()
    rep.case("shipped-table")
    if a != b:
        same = json.loads(a) == json.loads(b)
        rep.violation({"kind": "shipped-table"}, {"engine": "files", "what": "python/gherkin/gherkin-languages.json differs from /repo/gherkin-languages.json", "json_equal": same})
    from gherkin.dialect import DIALECTS
    if DIALECTS != json.loads(a):
        rep.violation({"kind": "loaded-table"}, {"engine": "files", "what": "gherkin.dialect.DIALECTS differs from the master table"})
    # the matcher of the specification against the whole table
    with Scratch("kw") as sc:
        write_dialects(sc)
        src = open(sc.path("MC_Keywords.tla")).read().replace("=" * 77, "ForeignSet == DOMAIN Dialects\n" + "=" * 77)
        sc.write("MC_Keywords.tla", src)
        sc.write("MC_Keywords.cfg", "SPECIFICATION Spec\nCONSTANT Foreign <- ForeignSet\nINVARIANT Inv_Complete\nINVARIANT Inv_Sound\nINVARIANT Inv_Types\nCHECK_DEADLOCK FALSE\n")
        res = run_tlc(sc, "MC_Keywords", timeout=1200, extra=["-continue"])
    if not res.finished:
        raise MachineryError("MC_Keywords did not finish\n" + res.out[-2000:])
    rep.add_tlc("MC_Keywords", res, "every listed keyword of every dialect matched in every dialect: Inv_Complete, Inv_Sound, Inv_Types")
    for inv in sorted(set(res.invariant_violations)):
        rep.violation({"kind": "spec-invariant", "invariant": inv}, {"engine": "MC_Keywords", "what": f"{inv} violated", "tlc_tail": res.out[-3000:]})
    # every keyword as a document through the real parser
    cases = K.all_cases(1 if tier == "quick" else 4) + K.foreign_cases(SEED, 300 if tier == "quick" else 3000) + K.header_cases(SEED, 400 if tier == "quick" else None)
    cases += K.star_cases() + K.english_cases() + E.src_limits()
    # a matcher whose DEFAULT dialect shares a step keyword with the dialect the header switches to (the keyword's type is the one of the dialect in force)
    table = json.loads(a)
    steps = {d: {k for role in ("given", "when", "then", "and", "but") for k in table[d][role] if k != "* "} for d in table}
    n_pairs = 0
    for d1 in sorted(table):
        for d2 in sorted(table):
            shared = sorted(steps[d1] & steps[d2])
            if d1 != d2 and shared:
                n_pairs += 1
                if tier == "quick" and n_pairs % 2:
                    continue
                body = "".join(f"    {k}x{i}\n" for i, k in enumerate(shared[:6]))
                cases.append((f"shared-step-keyword:{d1}->{d2}", f"# language: {d2}\n{table[d2]['feature'][0]}: f\n  {table[d2]['scenario'][0]}: s\n{body}", d1))
    rep.extra["dialect_pairs_sharing_a_step_keyword"] = n_pairs
    E.traces(rep, E.record_all(cases, listing=True), "keywords+foreign+headers+star", batch=2500)
    # the same documents through ONE re-used matcher: the dialect in force is the configured default unless the document says otherwise
    import sessions as S
    from gherkin.parser import Parser
    from gherkin.ast_builder import AstBuilder
    from gherkin.token_matcher import TokenMatcher
    from gherkin.stream.id_generator import IdGenerator
    shared = {}
    for name, s, d in cases[:: 3 if tier == "quick" else 1]:
        if E.known_finding_input(s):
            continue
        m = shared.setdefault(d, TokenMatcher(d))
        fresh, _ = S.outcome(lambda: Parser(AstBuilder(IdGenerator())).parse(s, TokenMatcher(d)))
        reused, _ = S.outcome(lambda: Parser(AstBuilder(IdGenerator())).parse(s, m))
        rep.case(("reused-matcher", name))
        if fresh != reused:
            rep.violation({"kind": "reused-matcher"}, {"engine": "reuse", "what": "a matcher used before gives a different result than a fresh one", "source": s, "dialect": d,
                                                       "fresh": fresh, "reused": reused})
    E.menu(rep, M.DIALECT, 4 if tier == "quick" else 5, invariants=["Inv_C05"], label="dialect")
    if tier == "thorough":
        E.traces(rep, E.record_all(E.src_generated(2000, SEED, sorted(json.loads(a)))), "generated-multidialect")
    _dialect_table_intact(rep)


PFX_TWO_RULES = [1, 3, 6, 2, 3, 7, 4, 6, 2]        # Feature, Background, Given; Rule, Background, And, Scenario, Given; Rule
PFX_TAGGED = [10, 1, 10, 2, 10, 4, 6, 10, 5, 8, 9]  # tags at feature, rule, scenario and examples level, one example row
PFX_OUTLINE = [1, 3, 6, 4, 6, 7, 5, 8]              # Feature, Background, Given; Scenario, Given, And; Examples, header
PFX_RULE_BG = [1, 2, 3, 6, 4, 6]                    # Feature, Rule, Background, Given; Scenario, Given
PFX_TABLELESS = [1, 4, 6, 10, 5]                    # Feature, Scenario, Given; tags, Examples (no table yet)
PFX_TAGS_AFTER_TABLE = [1, 4, 6, 8, 10, 5]          # Feature, Scenario, Given, | a |; tags, Examples
PFX_CELLLESS = [1, 4, 6, 12, 12, 5, 12]            # Feature, Scenario, Given, |, |; Examples, | (a header without cells)
PFX_TAG_PLACEHOLDER = [13, 1, 13, 4, 6, 13, 5, 8]  # @x<a> tags on Feature, Scenario and Examples; header | a |
PFX_BG_ARG = [1, 3, 6, 11, 4, 6, 5, 8]              # Feature, Background, Given <a> x, | <a> |; Scenario, Given <a> x; Examples, | a |
PFX_RULE_BG_ONLY = [1, 2, 3, 6, 2]                  # Feature, Rule, Background, Given; Rule (the first rule has a background and no scenario)
PFX_STEPLESS_RULE_BG = [1, 3, 6, 2, 3, 2]          # Feature, Background, Given; Rule, Background (no steps); Rule
PFX_RULE_BG_THEN_RULE = [1, 2, 3, 6, 4, 6, 2]      # Feature; Rule, Background, Given, Scenario, Given; Rule (no feature-level background)
MIXED_CASE_DIALECTS = ["cy-GB", "en-Scouse", "mk-Cyrl", "mk-Latn", "sr-Cyrl", "sr-Latn", "zh-CN", "zh-TW", "fr", "em", "ht", "en-old"]


def _compile_family(tier, rep, inv):
    rep.extra["rule"] = ("every ACCEPTED document over the structural menu (features, rules, backgrounds, scenarios, examples, steps, rows, tags; "
                         "free-text readings pruned) up to N lines, and up to k more lines after deep prefixes (two rules with backgrounds; tags at all "
                         "four levels; outline with background); distinct documents, non-trivial = at least one pickle; plus corpus/generated traces")
    q = tier == "quick"
    E.grow(rep, M.STRUCT, [([], 6 if q else 8), (PFX_TWO_RULES, 3 if q else 4), (PFX_TAGGED, 2 if q else 3), (PFX_OUTLINE, 2 if q else 4),
                           (PFX_RULE_BG, 2 if q else 3), (PFX_TABLELESS, 3 if q else 4), (PFX_BG_ARG, 2 if q else 3),
                           (PFX_TAGS_AFTER_TABLE, 2), (PFX_CELLLESS, 2), (PFX_TAG_PLACEHOLDER, 2),
                           (PFX_RULE_BG_ONLY, 2 if q else 3), (PFX_STEPLESS_RULE_BG, 2 if q else 3), (PFX_RULE_BG_THEN_RULE, 2 if q else 3)],
           invariants=[inv], label="struct")
    E.traces(rep, E.record_all(std_sources(tier, 300, 3000) + E.src_generated(60 if q else 1000, SEED + 1, MIXED_CASE_DIALECTS)), "corpus+gen+noisy+dialects")
    # the same with the id counter well past one digit when the document starts (a document in the middle of a stream)
    E.traces(rep, E.record_all(E.src_corpus() + [x for x in E.src_limits() if not x[0].startswith("count:") or "outline" in x[0]] + E.src_generated(60 if q else 600, SEED + 8), nid0=95), "ids-from-95")
    E.many_uses_pass(rep, 2500 if tier == "quick" else 20000)
    E.ast_variants_pass(rep, E.src_corpus() + E.src_limits() + E.src_generated(60 if q else 600, SEED + 6))
    E.compiler_reuse_pass(rep, std_sources(tier, 150, 1500))


def c06(tier, rep):
    _compile_family(tier, rep, "Inv_C06")


def c07(tier, rep):
    _compile_family(tier, rep, "Inv_C07")


def c08(tier, rep):
    _compile_family(tier, rep, "Inv_C08")


def _stream_runs(tier, rep, n_gen):
    import random, stream as S, gen, record as R
    from common import master_dialects
    r = random.Random(SEED)
    langs = master_dialects()
    srcs = [(n, s) for n, s in __import__("pipeline").corpus_sources() if tier == "thorough" or "very_long" not in n]
    srcs += [(f"gen{SEED}-{i}.feature", gen.doc(SEED * 1000003 + i, "en", langs=langs)) for i in range(n_gen)]
    srcs += [(f"noisy{SEED}-{i}.feature", gen.noisy(SEED * 7 + i, gen.doc(SEED * 1000003 + i, "en", langs=langs))) for i in range(n_gen // 2)]
    srcs = [(u, d) for u, d in srcs if not E.known_finding_input(d)]
    r.shuffle(srcs)
    runs, k = [], 0
    allopts = [(a, b, c) for a in (True, False) for b in (True, False) for c in (True, False)]
    while k < len(srcs):
        m = r.randint(1, 5)
        opts = (True, True, True) if r.random() < 0.5 else r.choice(allopts)
        if len(runs) % 3 == 2:      # the caller changes the options of the stream object between sources
            opts = [r.choice(allopts) for _ in range(m)]
        rec, raw = S.record_run(f"stream{len(runs)}", srcs[k:k + m], opts)
        runs.append(rec)
        k += m
    # the limit / look-ahead / state-leaving documents (parses abandoned at the error limit, open doc strings, dialect switches), each run closed by an ordinary source
    lims = [(n + ".feature", d) for n, d, dl in E.src_limits() if dl == "en" and not E.known_finding_input(d) and len(d) < 20000 and d.count("\n") <= 120]
    for k in range(0, len(lims), 3):
        rec, raw = S.record_run(f"stream-limits{k}", lims[k:k + 3] + [("plain.feature", "Feature: second\n  Scenario: t\n    Given x\n")], allopts[(k // 3) % 8] if k % 2 else (True, True, True))
        runs.append(rec)
    # one long stream: more sources through one stream object than any small-number threshold, a rejected one now and then, options switched twice on the way
    n_long = 300 if tier == "quick" else 1100
    long_srcs = [(f"long{i}.feature", ("Feature: f%d\n  Scenario: s\n    Given x\n" % i) if i % 9 else "Feature: f\n  junk%d\n  Scenario: s\n    Given x\n      | a |\n      | a | b |\n" % i)
                 for i in range(n_long)]
    rec, raw = S.record_run("stream-long", long_srcs, [(True, True, True) if i < n_long // 3 else (False, False, True) if i < 2 * n_long // 3 else (False, True, True) for i in range(n_long)])
    runs.append(rec)
    return runs


def _stream_part(tier, rep, own):
    import stream as S, tempfile, shutil, os, json
    streams, bad, res = S.model_check_and_replay(2, max_changes=1)
    if tier == "thorough":      # longer sequences under fixed options (with a change of options the number of streams grows 15-fold)
        s3, b3, r3 = S.model_check_and_replay(3, max_changes=0)
        rep.add_tlc("MC_Stream[3 sources, fixed options]", r3, f"{len(s3)} streams replayed through GherkinEvents.enum")
        streams, bad = streams + s3, bad + b3
        for inv in sorted(set(r3.invariant_violations)) + [e for e in r3.errors if "ropert" in e]:
            if own(inv):
                rep.violation({"kind": "spec-invariant", "invariant": inv}, {"engine": "MC_Stream", "what": f"{inv} violated", "tlc_tail": r3.out[-3000:]})
    rep.add_tlc("MC_Stream", res, f"{len(streams)} streams (sequences of pool sources x 8 option sets x one change of options between two sources) replayed through GherkinEvents.enum; "
                "Inv_C17_Order/Options/Uri/Rejected, Inv_C11_Unique/Dense, Act_Monotone")
    rep.traces += len(streams)
    for st in streams:
        rep.case(("stream", tuple(st["seq"]), json.dumps(st["optseq"], sort_keys=True), json.dumps(st["opts"], sort_keys=True)), nontrivial=len(st["seq"]) > 0)
    rep.sample({"stream": streams[len(streams) // 2]["seq"], "opts": streams[len(streams) // 2]["opts"], "envelopes": [len(x) for x in streams[len(streams) // 2]["segs"]]})
    for inv in sorted(set(res.invariant_violations)) + [e for e in res.errors if "ropert" in e]:
        if own(inv):
            rep.violation({"kind": "spec-invariant", "invariant": inv}, {"engine": "MC_Stream", "what": f"{inv} violated", "tlc_tail": res.out[-3000:]})
    for b in bad:
        rep.violation({"kind": "stream-replay"}, {"engine": "MC_Stream", "what": "real GherkinEvents differs from the predicted envelopes", **b})
    runs = _stream_runs(tier, rep, 150 if tier == "quick" else 2000)
    mism, done, res = S.validate(runs, refshapes=S.reference_shapes())
    rep.add_tlc("Trace_Stream", res, f"{len(runs)} recorded streams ({sum(len(r['sources']) for r in runs)} sources): envelopes = spec, every envelope's shape fits Messages.tla, "
                "order / options / uri predicates, ids unique per stream")
    rep.traces += len(runs)
    for i, r in enumerate(runs):
        rep.case(("run", json.dumps(r["sources"])[:2000], json.dumps(r["opts"])))
        for note in r["notes"]:
            if own("note"):
                rep.violation({"kind": "stream-note"}, {"engine": "Trace_Stream", "what": note, "run": r["name"]})
        m = mism.get(i + 1)
        if m and own(m["clause"]):
            src = r["sources"][m["src"] - 1]
            rep.violation({"kind": "stream:" + m["clause"]}, {"engine": "Trace_Stream", "what": f"stream differs: {m['clause']}", "run": r["name"], "opts": r["opts"],
                                                              "source": "".join(map(chr, src["data"])), "uri": "".join(map(chr, src["uri"])),
                                                              "impl": r["envs"][m["src"] - 1], "detail": m["detail"]})
        d = done.get(i + 1)
        if d and not d["unique"] and own("unique"):
            rep.violation({"kind": "stream:ids-not-unique"}, {"engine": "Trace_Stream", "what": "ids of one stream are not pairwise distinct", "run": r["name"]})
    return runs


def c17(tier, rep):
    import stream as S, tempfile, shutil, os, json
    rep.extra["rule"] = ("streams: every sequence of <= N pool sources x 8 option sets (spec -> code); recorded streams of 1..5 corpus/generated/noisy "
                         "sources with random option sets (code -> spec), every envelope reduced to a shape checked against Messages.tla; CLI output round-trip")
    _stream_part(tier, rep, lambda what: True)
    from props_total import _stream_rejection
    _stream_rejection(rep, E.src_limits() + E.src_corpus() + E.src_noisy(60 if tier == "quick" else 600, SEED + 5))
    # the command line in front of the stream: every command line over the flags and a pool of files (MC_Cli), each run as a real process
    import cli as CLI
    cases, badc, res = CLI.model_check_and_replay(3 if tier == "quick" else 4)
    rep.add_tlc("MC_Cli", res, f"{len(cases)} command lines (flags anywhere / repeated, files in any order and repeated): Inv_FlagsAnywhere, Inv_FileOrder, Inv_OneStream; each run through scripts/generate_events.py")
    rep.traces += len(cases)
    for c in cases:
        rep.case(("command-line", tuple(c["argv"])), nontrivial=any(not w.startswith("--") for w in c["argv"]))
    for inv in sorted(set(res.invariant_violations)):
        rep.violation({"kind": "spec-invariant", "invariant": inv}, {"engine": "MC_Cli", "what": f"{inv} violated", "tlc_tail": res.out[-3000:]})
    for b in badc[:20]:
        rep.violation({"kind": "command-line"}, {"engine": "MC_Cli", "what": "scripts/generate_events.py prints something else than the specification's stream for this command line", **b})
    # the command line tool: JSON text round trip equals enum()
    d = tempfile.mkdtemp(prefix="verif-c17-")
    try:
        files = []
        odd = [(nm, f"Feature: {nm}\n  Scenario: s\n    Given x\n") for nm in ("z[1].feature", "z1.feature", "what?.feature", "whatX.feature", "st*r.feature", "star.feature", "a b.feature", "-x.feature"[1:])]
        base = S.POOL[:4] + [("crlf.feature", "Feature: c\r\n  Scenario: s\r\n    Given x\r\n"), S.POOL[5], ("bom.feature", "\ufeffFeature: b\n  Scenario: s\n"), ("bom-comment.feature", "\ufeff# c\nFeature: b\n"),
                            ("lone-cr.feature", "Feature: a\rb\n  Scenario: s\n    Given x\ry\n")]
        for k, (u, data) in enumerate(base + odd):
            p = os.path.join(d, f"{k}-{u}" if k < len(base) else u)
            with open(p, "w", encoding="utf8", newline="") as fh:
                fh.write(data)
            files.append((p, data))
        for flags, opts in ([], (True, True, True)), (["--no-source"], (False, True, True)), (["--no-ast", "--no-pickles"], (True, False, False)):
            cli = S.cli_events([p for p, _ in files], flags)
            direct = [e for seg in S.run_stream(files, opts) for e in seg]
            rep.case(("cli", tuple(flags)))
            if cli != json.loads(json.dumps(direct)):
                rep.violation({"kind": "cli"}, {"engine": "cli", "what": "scripts/generate_events.py output differs from GherkinEvents.enum", "flags": flags,
                                                "first": next(((a, b) for a, b in zip(cli, direct) if a != b), (len(cli), len(direct)))})
        # ... in a process whose locale is not UTF-8 (feature files are UTF-8 whatever the locale), started from another directory
        for flags, opts in ([], (True, True, True)), (["--no-ast"], (True, False, True)):
            cli = S.cli_events([p for p, _ in files], flags, env_extra={"LC_ALL": "C", "LANG": "C", "PYTHONCOERCECLOCALE": "0", "PYTHONUTF8": "0", "PYTHONIOENCODING": "utf8"}, cwd="/")
            direct = [e for seg in S.run_stream(files, opts) for e in seg]
            rep.case(("cli-C-locale", tuple(flags)))
            if cli != json.loads(json.dumps(direct)):
                rep.violation({"kind": "cli-locale"}, {"engine": "cli", "what": "scripts/generate_events.py in a C-locale process differs from GherkinEvents.enum", "flags": flags,
                                                       "first": next(((a, b) for a, b in zip(cli, direct) if a != b), (len(cli), len(direct)))})
        # every line the tool prints is one JSON envelope -- for every option combination, also when a source yields nothing
        import subprocess, sys as _sys
        from common import PYROOT
        empty = os.path.join(d, "empty.feature")
        md = os.path.join(d, "notes.feature.md")
        open(empty, "w").write("Feature: nothing\n")
        open(md, "w").write("Feature: md\n  Scenario: s\n")
        for flags in ([], ["--no-source", "--no-ast"], ["--no-source", "--no-ast", "--no-pickles"], ["--no-pickles"]):
            pr = subprocess.run([_sys.executable, os.path.join(PYROOT, "scripts", "generate_events.py"), *flags, empty, files[2][0], md], capture_output=True, text=True,
                                env=dict(os.environ, PYTHONPATH=PYROOT, PYTHONDONTWRITEBYTECODE="1"), timeout=60)
            rep.case(("cli-lines", tuple(flags)))
            lines = pr.stdout.split("\n")[:-1] if pr.stdout.endswith("\n") else pr.stdout.split("\n")
            notjson = [l for l in lines if not l.strip().startswith("{")]
            if notjson or (pr.stdout and not pr.stdout.endswith("\n")):
                rep.violation({"kind": "cli-not-ndjson"}, {"engine": "cli", "what": "generate_events.py printed a line that is not a JSON envelope", "flags": flags, "lines": notjson[:3]})
            for l in lines:
                if l.strip().startswith("{") and "source" in json.loads(l) and json.loads(l)["source"].get("mediaType") != "text/x.cucumber.gherkin+plain":
                    rep.violation({"kind": "cli-media-type"}, {"engine": "cli", "what": "source envelope does not carry the Gherkin media type", "envelope": l[:200]})
        # the same file given twice is two sources
        one = files[0][0]
        cli = S.cli_events([one, files[1][0], one], [])
        direct = [e for seg in S.run_stream([files[0], files[1], files[0]], (True, True, True)) for e in seg]
        rep.case(("cli", "repeated-path"))
        if cli != json.loads(json.dumps(direct)):
            rep.violation({"kind": "cli-repeated-path"}, {"engine": "cli", "what": "a path given twice is not handled as two sources", "envelopes_cli": len(cli), "envelopes_direct": len(direct)})
        # the uri is the path exactly as given (relative spellings included)
        os.makedirs(os.path.join(d, "sub"), exist_ok=True)
        with open(os.path.join(d, "sub", "x.feature"), "w") as fh:
            fh.write("Feature: rel\n  Scenario: s\n")
        import subprocess, sys as _sys
        from common import PYROOT
        for rel in ("./sub/x.feature", "sub//x.feature", "sub/./x.feature", "sub/x.feature"):
            pr = subprocess.run([_sys.executable, os.path.join(PYROOT, "scripts", "generate_events.py"), rel], cwd=d, capture_output=True, text=True,
                                env=dict(os.environ, PYTHONPATH=PYROOT, PYTHONDONTWRITEBYTECODE="1"), timeout=60)
            evs = [json.loads(l) for l in pr.stdout.splitlines() if l.strip()]
            uris = [e.get("source", e.get("gherkinDocument", e.get("pickle", {}))).get("uri") for e in evs]
            rep.case(("cli-uri", rel))
            if pr.returncode != 0 or not uris or any(u != rel for u in uris):
                rep.violation({"kind": "cli-uri"}, {"engine": "cli", "what": "the uri of the envelopes is not the path as given", "given": rel, "uris": uris, "stderr": pr.stderr[-300:]})
    finally:
        shutil.rmtree(d, ignore_errors=True)


def c11(tier, rep):
    rep.extra["rule"] = ("ids: every accepted document over the structural menu (canonical order, density, references); streams of pool sources incl. "
                         "rejected ones (uniqueness across documents, monotone counter); corpus/generated traces and recorded streams")
    q = tier == "quick"
    E.grow(rep, M.STRUCT, [([], 6 if q else 8), (PFX_TAGGED, 2 if q else 3), (PFX_OUTLINE, 2 if q else 4)], invariants=["Inv_C11"], label="struct")
    _stream_part(tier, rep, lambda what: what in ("Inv_C11_Unique", "Inv_C11_Dense", "unique", "envelopes") or "Monotone" in what)
    E.traces(rep, E.record_all(std_sources(tier, 300, 3000) + E.src_generated(40 if q else 600, SEED + 2, MIXED_CASE_DIALECTS)), "corpus+gen+noisy+dialects")
    E.many_uses_pass(rep, 2500 if tier == "quick" else 20000)
    E.compiler_reuse_pass(rep, std_sources(tier, 100, 1000))
    import cli as CLI
    cases, badc, resc = CLI.model_check_and_replay(2 if q else 3)
    rep.add_tlc("MC_Cli", resc, f"{len(cases)} command lines run through scripts/generate_events.py: Inv_OneStream (the ids of one run are pairwise distinct -- one stream object for all files)")
    rep.traces += len(cases)
    for inv in sorted(set(resc.invariant_violations)):
        if inv == "Inv_OneStream":
            rep.violation({"kind": "spec-invariant", "invariant": inv}, {"engine": "MC_Cli", "what": f"{inv} violated", "tlc_tail": resc.out[-3000:]})
    for b in badc[:20]:
        if sum(1 for w in b["argv"] if not w.startswith("--")) > 1:
            rep.violation({"kind": "command-line"}, {"engine": "MC_Cli", "what": "scripts/generate_events.py with several files prints something else than ONE stream over them", **b})
    _default_parser_ids(rep)
    _user_generators(rep, E.src_corpus() + E.src_limits() + E.src_generated(40 if q else 400, SEED + 3))
    _many_ids(rep, 1200 if q else 4000)

def _all_ids(doc, pickles):
    out = []

    def walk(v):
        if isinstance(v, dict):
            if "id" in v:
                out.append(v["id"])
            for x in v.values():
                walk(x)
        elif isinstance(v, list):
            for x in v:
                walk(x)
    walk(doc)
    walk([{k: v for k, v in p.items() if k != "tags"} for p in pickles])
    return out


def _many_ids(rep, n_scenarios):
    """a document that draws several thousand ids: dense, unique, canonical from the first to the last (compared with the specification's ids)"""
    text = "Feature: many\n" + "".join(f"  Scenario: s{i}\n    Given x{i}\n" for i in range(n_scenarios))
    E.traces(rep, E.record_all([(f"many-ids:{n_scenarios}", text, "en")]), "many-ids")


def _user_generators(rep, sources):
    """"All ids handed out for one id generator": a generator of the user's own (a subclass overriding get_next_id; an object that only has get_next_id;
    a generator bound to the builder / compiler after construction) must be the one and only origin of the ids: the result equals the result with the
    standard generator (which the traces validate against the specification), and every id it handed out appears exactly once."""
    from gherkin.parser import Parser
    from gherkin.ast_builder import AstBuilder
    from gherkin.token_matcher import TokenMatcher
    from gherkin.pickles.compiler import Compiler
    from gherkin.stream.id_generator import IdGenerator
    import sessions as S

    class Sub(IdGenerator):
        def __init__(self):
            super().__init__()
            self.mine, self.out = 0, []

        def get_next_id(self):
            self.mine += 1
            self.out.append(str(self.mine - 1))
            return self.out[-1]

    class Duck:
        def __init__(self):
            self.mine, self.out = 0, []

        def get_next_id(self):
            self.mine += 1
            self.out.append(str(self.mine - 1))
            return self.out[-1]

    def run(make):
        """make() -> (parser, compiler, generator)"""
        try:
            parser, comp, g = make()
            d = parser.parse(s, TokenMatcher(dialect))
            d["uri"] = "u"
            pk = comp.compile(d)
            return ("ok", d, pk), (g.out if hasattr(g, "out") else None)
        except Exception as x:  # noqa: BLE001
            return ("exception", type(x).__name__, str(x)[:300]), None

    def standard():
        g = IdGenerator()
        return Parser(AstBuilder(g)), Compiler(g), g

    def subclass():
        g = Sub()
        return Parser(AstBuilder(g)), Compiler(g), g

    def duck():
        g = Duck()
        return Parser(AstBuilder(g)), Compiler(g), g

    class Named:
        """ids that are not numerals (nothing may compute with an id or sort by it)"""
        def __init__(self):
            self.mine, self.out = 0, []

        def get_next_id(self):
            self.mine += 1
            self.out.append("node-" + "abcdefghij"[(self.mine - 1) % 10] + str(10 ** 6 - self.mine))
            return self.out[-1]

    def named():
        g = Named()
        return Parser(AstBuilder(g)), Compiler(g), g

    def renamed(v, names):
        if isinstance(v, dict):
            return {k: (names[int(x)] if k in ("id", "astNodeId") else [names[int(y)] for y in x] if k == "astNodeIds" else renamed(x, names)) for k, x in v.items()}
        if isinstance(v, (list, tuple)):
            return type(v)(renamed(x, names) for x in v)
        return v

    def rebound():
        g = Sub()
        parser, comp = Parser(), Compiler()
        parser.ast_builder.id_generator = g
        comp.id_generator = g
        return parser, comp, g

    def rebound_after_use():
        g = Sub()
        parser, comp = Parser(AstBuilder(IdGenerator())), Compiler(IdGenerator())
        w = parser.parse("Feature: warm up\n  Scenario: s\n    Given x\n      | a |\n")
        w["uri"] = "w"
        comp.compile(w)
        parser.ast_builder.id_generator = g
        comp.id_generator = g
        return parser, comp, g

    for name, s, dialect in sources:
        if E.known_finding_input(s) or s.count("\n") > 300:
            continue
        ref, _ = run(standard)
        for how in (subclass, duck, rebound, rebound_after_use, named):
            got, out = run(how)
            rep.case(("user-generator", how.__name__, s))
            if how is named and got[0] == "ok" and ref[0] == "ok":
                if got != renamed(ref, out) or len(out) != len(_all_ids(ref[1], ref[2])):
                    rep.violation({"kind": "user-generator"}, {"engine": "user-generator", "what": "with a generator whose ids are not numerals the result is not the standard result with the ids renamed",
                                                               "source": s, "standard": str(ref)[:300], "own": str(got)[:300]})
                    break
                continue
            if got != ref:
                rep.violation({"kind": "user-generator"}, {"engine": "user-generator", "what": "with an id generator of the user's own (" + how.__name__ + ") the result differs from "
                                                           "the result with the standard generator", "source": s, "standard": str(ref)[:300], "own": str(got)[:300]})
                break
            if out is not None:
                ids = [str(i) for i in _all_ids(got[1], got[2])]
                if sorted(ids) != sorted(out):
                    rep.violation({"kind": "user-generator-ids"}, {"engine": "user-generator", "what": "the ids in document and pickles are not exactly the ids the user's generator (" +
                                                                   how.__name__ + ") handed out", "source": s, "handed_out": len(out), "present": len(ids)})
                    break


def _default_parser_ids(rep):
    """one id generator = one id space: a default-constructed Parser (and a Compiler sharing its generator) used for several documents"""
    import project as P
    from gherkin.parser import Parser
    from gherkin.pickles.compiler import Compiler
    first = Parser().parse("@a\nFeature: a\n  Scenario: s\n    Given x\n")
    second = Parser().parse("@a\nFeature: a\n  Scenario: s\n    Given x\n")
    rep.case(("two-default-parsers",))
    if first != second or _all_ids(P.document(first), []) != [2, 1, 0] and sorted(_all_ids(P.document(first), [])) != [0, 1, 2]:
        rep.violation({"kind": "default-generators-not-fresh"}, {"engine": "default-parser", "what": "two default-constructed parsers give different ids for the same document "
                                                                 "(each has its own fresh generator: ids must start at 0)", "first": _all_ids(P.document(first), []), "second": _all_ids(P.document(second), [])})
    parser = Parser()
    comp = Compiler(parser.ast_builder.id_generator)
    seen = []
    for text in ("@a\nFeature: a\n  Scenario: s\n    Given x\n", "junk\n", "@a\nFeature: a\n  Scenario: s\n    Given x\n",
                 "Feature: b\n  Scenario Outline: o\n    Given <h>\n    Examples:\n      | h |\n      | 1 |\n"):
        try:
            d = parser.parse(text)
        except Exception:  # noqa: BLE001
            continue
        d["uri"] = "u"
        pk = comp.compile(d)
        ids = [str(i) for i in _all_ids(P.document(d), [P.pickle(x) for x in pk])]
        rep.case(("default-parser-ids", text, len(seen)))
        dup = [i for i in ids if i in seen]
        if dup or len(set(ids)) != len(ids):
            rep.violation({"kind": "ids-reused"}, {"engine": "default-parser", "what": "ids handed out by one generator repeat across documents of one Parser/Compiler",
                                                   "source": text, "repeated": dup[:5]})
        seen += ids



def c09(tier, rep):
    import compilelevel as CL
    rep.extra["rule"] = ("every template <= L over {<, >, a, ., backslash, $} x header/value pairs (regex metacharacters, group references, placeholders in values, "
                         "two sequential columns): distinct triples, non-trivial = the template contains a placeholder of the header; replayed on AST dictionaries "
                         "through Compiler.compile (name, step text, cell, doc string content, media type, background step untouched); a sample as real text")
    headers = [["a"], ["."], ["a."], ["<a"], ["a>"], ["("], [""], ["$"], ["\\"], ["\na"], ["a\n"], ["a", "."], ["a", "<a>"], ["a", "a"], [".", "a."]]
    values = [["x"], [""], ["<a>"], ["\\"], ["\\1"], ["$"], [".a"], [">"], ["\\g<0>"], ["\n"], ["<.>", "y"], ["<a>", "<.>"], ["<<a>>", "z"], ["x", "y"], ["<a.>", "."]]
    headers2 = [["a\n"], ["\na"], ["e\u0301"], ["\u00e9"], ["a", "a\n"]]
    values2 = [["x"], ["<a>"], ["\n"], ["x", "y"]]
    cases2, bad2, res2 = CL.interpolate("<>ae\n\u0301\u00e9", 4 if tier == "quick" else 5, headers2, values2, tag="interp2")
    rep.add_tlc("MC_Interpolate[line feeds, combining marks]", res2, f"{len(cases2)} triples over an alphabet with a line feed, 'e', U+0301 and U+00E9 (placeholders spanning lines, text that differs only by normalisation)")
    rep.traces += len(cases2)
    for inv in sorted(set(res2.invariant_violations)):
        rep.violation({"kind": "spec-invariant", "invariant": inv}, {"engine": "MC_Interpolate", "what": f"{inv} violated", "tlc_tail": res2.out[-3000:]})
    for b in bad2[:50]:
        rep.violation({"kind": "interpolate:" + b["field"]}, {"engine": "interpolate", "what": "Compiler.compile substitutes differently from the specification", **b})
    cases3, bad3, res3 = CL.interpolate("<>a\x1f\x00", 4 if tier == "quick" else 5, [["a"], ["a\x1f"], ["\x1f"], ["a", "\x1f"], ["\x00"]], [["x"], ["\x1f"], ["x\x1fy"], ["x", "y"], ["\x00<a>"]], tag="interp3")
    rep.add_tlc("MC_Interpolate[separator characters]", res3, f"{len(cases3)} triples over an alphabet with U+001F and U+0000 (characters a program might use as its own separators)")
    rep.traces += len(cases3)
    for inv in sorted(set(res3.invariant_violations)):
        rep.violation({"kind": "spec-invariant", "invariant": inv}, {"engine": "MC_Interpolate", "what": f"{inv} violated", "tlc_tail": res3.out[-3000:]})
    for b in bad3[:50]:
        rep.violation({"kind": "interpolate:" + b["field"]}, {"engine": "interpolate", "what": "Compiler.compile substitutes differently from the specification", **b})
    cases, bad, res = CL.interpolate("<>a.\\$", 4 if tier == "quick" else 5, headers, values)
    rep.add_tlc("MC_Interpolate", res, f"{len(cases)} (template, headers, values) triples: operational = declarative, unchanged, literal, sequential; replayed through Compiler.compile")
    rep.traces += len(cases)
    for c in cases:
        t, h = "".join(map(chr, c["t"])), ["".join(map(chr, x)) for x in c["h"]]
        rep.case((tuple(c["t"]), repr(c["h"]), repr(c["v"])), nontrivial=any("<" + x + ">" in t for x in h))
    rep.sample({"template": "".join(map(chr, cases[len(cases) // 3]["t"])), "headers": ["".join(map(chr, x)) for x in cases[len(cases) // 3]["h"]],
                "values": ["".join(map(chr, x)) for x in cases[len(cases) // 3]["v"]], "result": "".join(map(chr, cases[len(cases) // 3]["r"]))})
    for inv in sorted(set(res.invariant_violations)):
        rep.violation({"kind": "spec-invariant", "invariant": inv}, {"engine": "MC_Interpolate", "what": f"{inv} violated", "tlc_tail": res.out[-3000:]})
    for b in bad[:50]:
        rep.violation({"kind": "interpolate:" + b["field"]}, {"engine": "interpolate", "what": "Compiler.compile substitutes differently from the specification", **b})
    # as real text, through the parser too
    def esc(s):
        return s.replace("\\", "\\\\").replace("|", "\\|").replace("\n", "\\n")
    docs = []
    for k, c in enumerate(cases[:: max(1, len(cases) // (150 if tier == "quick" else 1500))]):
        t, hs, vs = "".join(map(chr, c["t"])), ["".join(map(chr, x)) for x in c["h"]], ["".join(map(chr, x)) for x in c["v"]]
        if any(x != x.strip() for x in hs + vs + [t]) or not t.strip():
            continue
        docs.append((f"interp-text:{k}", "Feature: f\n  Background:\n    Given " + t + "\n  Scenario Outline: " + t + "\n    Given " + t + "\n      | " + esc(t) + " |\n    When y\n      \"\"\" " + t
                     + "\n      " + t + "\n      \"\"\"\n    Examples:\n      | " + " | ".join(map(esc, hs)) + " |\n      | " + " | ".join(map(esc, vs)) + " |\n", "en"))
    E.grow(rep, M.STRUCT, [(PFX_BG_ARG, 2 if tier == "quick" else 3), (PFX_OUTLINE, 2)], invariants=["Inv_C09"], label="struct")
    E.compiler_reuse_pass(rep, std_sources(tier, 150, 1500))
    E.ast_variants_pass(rep, E.src_corpus() + E.src_limits() + docs[:40] + E.src_generated(60 if tier == "quick" else 600, SEED + 6))
    E.traces(rep, E.record_all(docs + std_sources(tier, 200, 2000)), "interp-text+corpus+gen")


def c10(tier, rep):
    import compilelevel as CL, keywords as K
    from common import master_dialects
    rep.extra["rule"] = ("every sequence of the 5 step keyword types over background 0..2 x scenario 0..4 steps, plain and outline (complete up to that length); "
                         "replayed on AST dictionaries and (short ones) as text; every listed step keyword of every dialect once for the keyword -> type map")
    _use_markdown_matcher_first()
    cases, bad, res = CL.types(2, 4 if tier == "quick" else 5)
    rep.add_tlc("MC_Types", res, f"{len(cases)} keyword type sequences x plain/outline: Inv_Definite, Inv_FromKeyword, Inv_PlainEqualsOutline, P_C10; replayed through Compiler.compile")
    rep.traces += 2 * len(cases)
    for c in cases:
        rep.case((tuple(c["bg"]), tuple(c["sc"])), nontrivial=len(c["sc"]) > 0)
    rep.sample({"background": cases[len(cases) // 2]["bg"], "scenario": cases[len(cases) // 2]["sc"], "types": cases[len(cases) // 2]["plain"]})
    for inv in sorted(set(res.invariant_violations)):
        rep.violation({"kind": "spec-invariant", "invariant": inv}, {"engine": "MC_Types", "what": f"{inv} violated", "tlc_tail": res.out[-3000:]})
    for b in bad[:50]:
        rep.violation({"kind": "types"}, {"engine": "types", "what": "pickle step types differ from the specification", **b})
    cases, bad, res = CL.types(1, 2 if tier == "quick" else 3, tag="types-rule", max_rb=2)
    rep.add_tlc("MC_Types[rule-background]", res, f"{len(cases)} sequences over feature background x RULE background x scenario, plain and outline")
    rep.traces += 2 * len(cases)
    for c in cases:
        rep.case(("rule-bg", tuple(c["bg"]), tuple(c.get("rb", ())), tuple(c["sc"])), nontrivial=len(c["sc"]) > 0)
    for inv in sorted(set(res.invariant_violations)):
        rep.violation({"kind": "spec-invariant", "invariant": inv}, {"engine": "MC_Types", "what": f"{inv} violated", "tlc_tail": res.out[-3000:]})
    for b in bad[:50]:
        rep.violation({"kind": "types"}, {"engine": "types", "what": "pickle step types differ from the specification (rule background)", **b})
    E.grow(rep, M.STRUCT, [([], 6 if tier == "quick" else 7), (PFX_TWO_RULES, 3), (PFX_OUTLINE, 2)], invariants=["Inv_C10"], label="struct")
    # every step keyword of every dialect: the keyword -> type map, via real documents with an outline
    langs = master_dialects()
    docs = []
    for d in sorted(langs):
        D = langs[d]
        kws = []
        for role in K.STEP:
            for kw in D[role]:
                if kw not in kws:
                    kws.append(kw)
        body = f"{D['feature'][0]}: f\n  {D['scenarioOutline'][0]}: o\n" + "".join(f"    {kw}s{i}\n" for i, kw in enumerate(kws)) + f"    {D['examples'][0]}:\n      | h |\n      | 1 |\n"
        docs.append((f"steps:{d}", body, d))
    E.traces(rep, E.record_all(docs + std_sources(tier, 200, 2000)), "all-step-keywords+corpus+gen")
    E.compiler_reuse_pass(rep, std_sources(tier, 150, 1500))
    E.ast_variants_pass(rep, E.src_corpus() + E.src_limits() + docs + E.src_generated(60 if tier == "quick" else 600, SEED + 6))
    # one matcher re-used across documents that switch dialect by header: the keyword -> type map must be the dialect's own each time
    hdr = [(f"hdr:{d}", f"# language: {d}\n" + body, "en") for (n, body, d) in docs[:: 2 if tier == "quick" else 1]]
    plain = [("plain-en", "Feature: f\n  Scenario: s\n    Given a\n    And b\n    * c\n    But d\n    When e\n    And f\n", "en")]
    E.reuse_pass(rep, hdr + plain + hdr[:5] + [x for x in E.src_limits() if not x[0].startswith("count:")] + plain + hdr[:3] + plain, "reuse-headers")
    E.prepared_matchers_pass(rep, docs + plain + hdr[:10])
    _dialect_table_intact(rep)


def c13(tier, rep):
    rep.extra["rule"] = ("doc string bodies: every sequence of <= N menu lines (every kind of Gherkin-looking line, both delimiters and their escaped forms, less / "
                         "equally / more indented lines) after an opening delimiter in scenario, background and outline steps, closed or not; accepted documents "
                         "replayed; plus menu sequences with rejected outcomes and corpus/generated traces")
    q = tier == "quick"
    E.grow(rep, M.DOCSTRING, [([1, 2, 3, 4], 3 if q else 4), ([1, 2, 3, 5], 3 if q else 4), ([1, 2, 3, 6], 2 if q else 3), ([1, 2, 3, 7], 2 if q else 3),
                              ([1, 18, 3, 4], 2), ([1, 19, 3, 5], 2), ([1, 21, 18, 3, 4], 2), ([1, 2, 3, 7, 17, 7, 3, 4], 2), ([1, 2, 3, 25], 2), ([1, 2, 3, 26], 2), ([1, 2, 3, 27], 2)],
           invariants=["Inv_C13"], label="docstring", no_free_text=False)
    E.menu(rep, M.DOCSTRING[:15], 3 if q else 4, max_errs=2, invariants=["Inv_C13"], label="docstring-any")
    E.reuse_pass(rep, E.src_limits() + E.src_corpus() + E.src_limits(), "reuse")
    E.traces(rep, E.record_all(std_sources(tier, 300, 3000)), "corpus+gen+noisy")


def c15(tier, rep):
    import os, sessions as S, json, record as R
    rep.extra["rule"] = ("histories: every sequence of <= N documents from a pool of 12 state-perturbing documents through ONE real Parser/TokenMatcher/Compiler "
                         "sharing an id generator (two default dialects); schedules: every interleaving, at parse-loop-iteration granularity, of two (thorough: three) "
                         "concurrent parses of small documents, enforced on real parsers in threads; determinism and compile purity on every accepted document")
    q = tier == "quick"
    for default, n in (("en", 2 if q else 3), ("fr", 2)):
        ss, res = S.tlc_sessions(S.HIST_POOL, 1, n, True, default)
        rep.add_tlc(f"Sessions[histories,default={default},len<={n}]", res, f"{len(ss)} histories replayed on one re-used Parser/TokenMatcher/Compiler; Inv_Fresh, Inv_Solo")
        rep.traces += len(ss)
        for inv in sorted(set(res.invariant_violations)):
            rep.violation({"kind": "spec-invariant", "invariant": inv}, {"engine": "Sessions", "what": f"{inv} violated", "tlc_tail": res.out[-3000:]})
        for s in ss:
            rep.case(("history", default, tuple(h["d"] for h in s["hist"][0])), nontrivial=len(s["hist"][0]) > 1)
            for b in S.replay_history(S.HIST_POOL, s, default):
                rep.violation({"kind": "history"}, {"engine": "history", "what": b.get("what"), "default_dialect": default,
                                                    "history": [S.HIST_POOL[h["d"] - 1] for h in s["hist"][0]], "detail": b})
        rep.sample({"history": [S.HIST_POOL[h["d"] - 1][:40] for h in ss[len(ss) // 2]["hist"][0]], "default": default})
    pool = S.SCHED_POOL[:4] if q else S.SCHED_POOL
    for n_inst, sub in ((2, pool),) + (() if q else ((3, [x for x in pool if x.count("\n") <= 2][:3]),)):
        ss, res = S.tlc_sessions(sub, n_inst, 1, False)
        seen, uniq = set(), []
        for s in ss:
            key = (json.dumps(s["hist"]), json.dumps([x[1] for x in s["sched"]]))
            if key not in seen and sum(1 for h in s["hist"] if h) > 1:
                seen.add(key)
                uniq.append(s)
        rep.add_tlc(f"Sessions[schedules,instances={n_inst}]", res, f"{len(uniq)} distinct interleavings replayed with real parsers in gated threads; Inv_Independent")
        rep.traces += len(uniq)
        for inv in sorted(set(res.invariant_violations)):
            rep.violation({"kind": "spec-invariant", "invariant": inv}, {"engine": "Sessions", "what": f"{inv} violated", "tlc_tail": res.out[-3000:]})
        for k, s in enumerate(uniq):
            rep.case(("schedule", json.dumps(s["hist"]), tuple(x[1] for x in s["sched"])))
            for b in S.replay_schedule(sub, s) + (S.replay_schedule(sub, s, own_matcher=False) if k % 3 == 0 else []):
                if str(b.get("what", "")).startswith("machinery"):
                    from common import MachineryError
                    raise MachineryError(b["what"])
                rep.violation({"kind": "schedule"}, {"engine": "schedule", "what": b.get("what"), "detail": b})
        if uniq:
            rep.sample({"schedule": [x[1] for x in uniq[len(uniq) // 2]["sched"]], "documents": [sub[h[0]["d"] - 1][:30] for h in uniq[len(uniq) // 2]["hist"] if h]})
    # the standard limit / look-ahead / state-leaving documents, twice, through one re-used parser and matcher
    lim = E.src_limits()
    E.reuse_pass(rep, lim + lim[::-1] + lim, "reuse-limits")
    E.reuse_pass(rep, lim + lim[::-1] + lim, "reuse-limits-french-default", default="fr")
    E.compiler_reuse_pass(rep, lim + lim[::-1], "compiler-reuse-limits")
    E.prepared_matchers_pass(rep, [x for x in lim if not x[0].startswith("count:")] + E.src_generated(40, SEED + 9, ALL_PURPOSE_DIALECTS))
    E.many_uses_pass(rep, 2500 if tier == "quick" else 20000)
    # determinism across processes: the same documents in interpreters with different string-hash seeds
    import subprocess, sys as _sys
    probe = ("import sys, json; sys.path.insert(0, sys.argv[1]); sys.path.insert(0, sys.argv[2]); import record as R, engines as E, gen\n"
             "docs = [x for x in E.src_limits() if x[0].startswith(('empty-header', 'tag-placeholder', 'nfc', 'column-cross', 'nfd', 'french', 'permuted', 'hash-in'))] + E.src_generated(40, 5) + E.src_generated(20, 6, ['ru', 'ja', 'fr', 'em'])\n"
             "print(json.dumps([[R.record(n, s, d)[k] for k in ('ast', 'pickles', 'errs')] for n, s, d in docs]))")
    from common import VERIF
    outs = []
    # ... and with another locale (C, no UTF-8 coercion), another working directory, optimisation on (assert statements removed)
    for hs, env, cwd, flags in (("1", {}, None, []), ("2", {}, None, []), ("77", {"LC_ALL": "C", "LANG": "C", "PYTHONCOERCECLOCALE": "0", "PYTHONUTF8": "0"}, "/", []), ("3", {}, None, ["-O"])):
        pr = subprocess.run([_sys.executable, *flags, "-c", probe, os.path.join(VERIF, "harness"), os.path.join(VERIF, "harness")], capture_output=True, text=True, cwd=cwd,
                            env=dict(os.environ, PYTHONHASHSEED=hs, PYTHONDONTWRITEBYTECODE="1", **env), timeout=300)
        outs.append(pr.stdout if pr.returncode == 0 else "ERR " + pr.stderr[-300:])
    rep.case(("hash-seeds",))
    if any(o.startswith("ERR") for o in outs):
        from common import MachineryError
        raise MachineryError("hash-seed probe failed: " + outs[0][:300])
    if len(set(outs)) != 1:
        rep.violation({"kind": "hash-seed-dependent"}, {"engine": "determinism", "what": "results differ between interpreters started with different PYTHONHASHSEED values / locale / working directory / -O"})
    # determinism and purity of parse / compile on real documents
    for name, s, dialect in std_sources(tier, 150, 1500):
        if R.source_is_path(s):
            continue
        a, b = R.record(name, s, dialect), R.record(name, s, dialect)
        rep.case(("determinism", s), nontrivial=len(s) > 0)
        if a != b:
            rep.violation({"kind": "nondeterministic"}, {"engine": "determinism", "what": "two runs on the same input differ", "source": s})
        if "compile-mutated-document" in a["exc"]:
            rep.violation({"kind": "compile-mutates"}, {"engine": "determinism", "what": "Compiler.compile modified the document it was given", "source": s})
    _dialect_table_intact(rep)


def _use_markdown_matcher_first():
    """other matchers of the library used in the same process must leave the plain matcher's keyword types alone (they share the dialect table)"""
    from gherkin.token_matcher_markdown import GherkinInMarkdownTokenMatcher
    from gherkin.gherkin_line import GherkinLine
    from gherkin.token import Token
    from common import master_dialects
    for d, D in master_dialects().items():
        tm = GherkinInMarkdownTokenMatcher(d)
        for role in ("given", "when", "then", "and", "but"):
            for kw in D[role][:3]:
                for line in (f"* {kw}x", f"- {kw}y", f"## {D['scenario'][0]}: s", "`@t`", "  | a |"):
                    for m in ("match_StepLine", "match_ScenarioLine", "match_TagLine", "match_TableRow", "match_FeatureLine"):
                        try:
                            getattr(tm, m)(Token(GherkinLine(line, 1), {"line": 1}))
                        except Exception:  # noqa: BLE001 -- judged by C19
                            pass


def _dialect_table_intact(rep):
    """module-level state: after everything this process has parsed and compiled, the dialect table in memory is still the master table (the Dialect
    properties hand out the table's own lists)"""
    import json, os
    from common import REPO
    from gherkin.dialect import DIALECTS
    rep.case(("dialect-table-intact",))
    if DIALECTS != json.load(open(os.path.join(REPO, "gherkin-languages.json"), encoding="utf8")):
        rep.violation({"kind": "dialect-table-changed"}, {"engine": "determinism", "what": "gherkin.dialect.DIALECTS no longer equals the master table after the documents of this check were processed"})


def c16(tier, rep):
    import layout as LY, json
    rep.extra["rule"] = ("spec: every document <= N over a layout menu x EVERY admissible application of each transformation (CRLF, no final line break, trailing "
                         "blanks, more indentation incl. doc string blocks, blank line, comment line); code: corpus + generated + noisy documents x sampled admissible "
                         "applications, the relation evaluated by TLC on the implementation's recorded results; file versus string")
    q = tier == "quick"
    items, n, bad, res = LY.model_check_and_replay(M.LAYOUT, 3 if q else 4)
    rep.add_tlc(f"MC_Layout[N={3 if q else 4}]", res, f"{len(items)} documents, {n} admissible applications: Inv_Layout on the spec; each replayed through the real parser/compiler")
    rep.traces += n
    for it in items:
        for c in it["cases"]:
            rep.case((tuple(it["input"]), json.dumps(c["tr"], sort_keys=True)))
    ex = next(it for it in items if len(it["cases"]) > 3)
    rep.sample({"document": "".join(M.LAYOUT[i - 1] for i in ex["input"]), "applications": [c["tr"] for c in ex["cases"][:4]]})
    for inv in sorted(set(res.invariant_violations)):
        rep.violation({"kind": "spec-invariant", "invariant": inv}, {"engine": "MC_Layout", "what": f"{inv} violated", "tlc_tail": res.out[-3000:]})
    for b in bad[:30]:
        rep.violation({"kind": "layout:" + b["tr"]["t"]}, {"engine": "MC_Layout", "what": "result of the transformed document differs from the adjusted original result", **b})
    srcs = [x for x in std_sources(tier, 150, 2000) if not (q and "very_long" in x[0])]
    # small documents (every application is tried) with blank lines / comments inside the tables of feature-level and rule-level background steps and of examples
    srcs += [("background-table-small", "Feature: f\n  Background: b\n    Given x\n      | a | b |\n\n      | c | d |\n  Scenario: s\n    Then z\n", "en"),
             ("background-table-small-dense", "Feature: f\n  Background: b\n    Given x\n      | a | b |\n      | c | d |\n      | e | f |\n  Scenario: s\n    Then z\n", "en"),
             ("rule-tables-small-dense", "Feature: f\n  Rule: r\n    Background:\n      Given x\n        | a |\n        | b |\n    Scenario Outline: o\n      Given <h>\n        | c |\n        | d |\n      Examples:\n        | h |\n        | 1 |\n", "en"),
             ("examples-table-small", "Feature: f\n  Scenario Outline: o\n    Given <a>\n    Examples:\n      | a |\n\n      | 1 |\n      # c\n      | 2 |\n", "en"),
             ("step-table-small", "Feature: f\n  Rule: r\n    Example: e\n      Given x\n        | a |\n        # c\n        | b |\n\n        | c |\n      Then y\n", "en")]
    pairs = LY.build_pairs([x for x in srcs if not x[0].startswith("count:")], SEED, 2 if q else 4)
    verdicts, ress = LY.validate_pairs(pairs)
    for res in ress[:-1]:
        rep.add_tlc("Trace_Layout", res, "batch")
    res = ress[-1]
    rep.add_tlc("Trace_Layout", res, f"{len(pairs)} documents, {sum(len(p['cases']) for p in pairs)} transformed versions: harness transformation = ApplyT, admissible, relation holds on recorded results")
    for k, p in enumerate(pairs):
        for c, v in zip(p["cases"], verdicts[k + 1]):
            rep.traces += 1
            rep.case((p["name"], json.dumps(c["tr"], sort_keys=True)))
            src = "".join("".join(map(chr, l)) for l in p["lines"])
            if c["exc"]:
                rep.violation({"kind": "layout-exception"}, {"engine": "Trace_Layout", "what": "transformed document raised " + c["exc"], "source": src, "tr": c["tr"]})
            elif v == "harness-transformation":
                from common import MachineryError
                raise MachineryError(f"harness applied {c['tr']} differently from Layout!ApplyT on {p['name']}")
            elif v == "relation":
                rep.violation({"kind": "layout:" + c["tr"]["t"]}, {"engine": "Trace_Layout", "what": "layout transformation changed the result beyond the allowed adjustment",
                                                                   "source": src, "dialect": p["dialect"], "tr": c["tr"], "transformed": "".join("".join(map(chr, l)) for l in c["lines"]),
                                                                   "original_result": p["result"], "transformed_result": c["result"]})
            elif v == "not-admissible":
                rep.extra["skipped_not_admissible"] = rep.extra.get("skipped_not_admissible", 0) + 1
    # (the property speaks of documents whose carriage returns occur only in CR LF pairs: a file is read with universal newlines, Scanner.tla)
    import re as _re, scanner as SC
    srcs = [x for x in srcs if not _re.search(r"\r(?!\n)", x[1])]
    cases, badsc, res = SC.model_check_and_replay(4 if q else 6)
    rep.add_tlc("MC_Scanner", res, f"{len(cases)} arguments / file contents replayed on the real TokenScanner: a file whose CRs occur only in CR LF pairs reads as the string with LF (Inv_FileIsCrLfString)")
    rep.traces += len(cases)
    for inv in sorted(set(res.invariant_violations)):
        rep.violation({"kind": "spec-invariant", "invariant": inv}, {"engine": "MC_Scanner", "what": f"{inv} violated", "tlc_tail": res.out[-3000:]})
    for b in [b for b in badsc if not SC.acceptable_anyway(b)][:20]:
        rep.violation({"kind": "scanner"}, {"engine": "MC_Scanner", "what": "the real TokenScanner reads something else than the specification's stream", **b})
    for b in LY.file_vs_string(srcs[:: 3 if q else 1]):
        rep.violation({"kind": "file-vs-string"}, {"engine": "files", **b})
    # ... whatever the locale of the process: files are UTF-8 (C locale without UTF-8 mode, another working directory)
    import subprocess, sys as _sys, os
    from common import VERIF, MachineryError
    probe = ("import sys, json; sys.path.insert(0, sys.argv[1]); import layout as LY, engines as E, re\n"
             "srcs = [x for x in E.src_corpus() + E.src_limits() if any(ord(c) > 127 for c in x[1]) and not re.search(r'\\r(?!\\n)', x[1]) and not E.known_finding_input(x[1])]\n"
             "print(json.dumps({'n': len(srcs), 'bad': [{k: str(v)[:300] for k, v in b.items()} for b in LY.file_vs_string(srcs)]}))")
    pr = subprocess.run([_sys.executable, "-c", probe, os.path.join(VERIF, "harness")], capture_output=True, text=True, cwd="/", timeout=600,
                        env=dict(os.environ, LC_ALL="C", LANG="C", PYTHONCOERCECLOCALE="0", PYTHONUTF8="0", PYTHONDONTWRITEBYTECODE="1", PYTHONIOENCODING="utf8"))
    if pr.returncode != 0:
        raise MachineryError("locale probe failed: " + pr.stderr[-600:])
    out = json.loads(pr.stdout.strip().splitlines()[-1])
    rep.case(("file-vs-string-C-locale", out["n"]))
    rep.traces += out["n"]
    for b in out["bad"][:10]:
        rep.violation({"kind": "file-vs-string-locale"}, {"engine": "files", "locale": "C, no UTF-8 mode", **b})
    crlf = [(n + "|crlf", s.replace("\n", "\r\n"), d) for n, s, d in srcs if "\r" not in s][:: 2 if q else 1]
    for b in LY.file_vs_string(crlf):
        rep.violation({"kind": "file-vs-string-crlf"}, {"engine": "files", **b})


def c19(tier, rep):
    import markdown as MD
    rep.extra["rule"] = ("complete: every dialect x listed keyword x header depth 0..7 / bullet in {*, +, -, none, '1.', '#'} x separator in {none, blank, tab, two blanks} x "
                         "indentation; table rows indented 0..8 and tag lines over small alphabets up to a length bound; distinct test lines")
    rep.extra["exhaustive"] = True
    cases, bad, res = MD.keywords()
    rep.add_tlc("MC_Markdown", res, f"{len(cases)} header / bullet lines: Inv_Header, Inv_Bullet; each replayed on the real match_* methods (positive: fields; negative: no keyword method matches)")
    rep.traces += len(cases)
    for c in cases:
        rep.case((c["d"], tuple(c["line"])), nontrivial=c["ok"])
    rep.sample({"dialect": cases[len(cases) // 2]["d"], "line": "".join(map(chr, cases[len(cases) // 2]["line"])), "recognised": cases[len(cases) // 2]["ok"]})
    for inv in sorted(set(res.invariant_violations)):
        rep.violation({"kind": "spec-invariant", "invariant": inv}, {"engine": "MC_Markdown", "what": f"{inv} violated", "tlc_tail": res.out[-3000:]})
    for b in bad[:50]:
        rep.violation({"kind": "markdown-keyword"}, {"engine": "markdown", "what": "Markdown matcher differs from the specification", **b})
    cases, bad, res = MD.rows_and_tags(4 if tier == "quick" else 6, 8 if tier == "quick" else 9)
    rep.add_tlc("MC_MarkdownRows", res, f"{len(cases)} table-row and tag lines: Inv_RowWindow, Inv_Tags; replayed on match_TableRow / match_TagLine")
    rep.traces += len(cases)
    for c in cases:
        rep.case((c["kind"], tuple(c["line"])), nontrivial=c["ok"])
    rep.sample({"line": "".join(map(chr, next(c for c in cases if c["ok"] and c["kind"] == "tags")["line"]))})
    for inv in sorted(set(res.invariant_violations)):
        rep.violation({"kind": "spec-invariant", "invariant": inv}, {"engine": "MC_MarkdownRows", "what": f"{inv} violated", "tlc_tail": res.out[-3000:]})
    for b in bad[:50]:
        rep.violation({"kind": "markdown-row-tags"}, {"engine": "markdown", "what": "Markdown matcher differs from the specification", **b})


CHECKS = {"C02": c02, "C19": c19, "C16": c16, "C15": c15, "C09": c09, "C10": c10, "C13": c13, "C11": c11, "C17": c17, "C06": c06, "C07": c07, "C08": c08, "C05": c05, "C12": c12, "C01": c01, "C03": c03, "C04": c04, "C14": c14, "C18": c18}


def replay(prop: str, path: str) -> int:
    """Re-run the single case stored in a replay file through the engine that produced it."""
    import record as R, pipeline as PL, attribute as AT
    with open(path) as fh:
        v = json.load(fh)
    if "source" not in v:
        print(json.dumps(v, indent=1)[:3000])
        return 1
    rec = R.record("replay", v["source"], v.get("dialect", "en"), v.get("mode", "collect"))
    results, res = PL.validate([rec], tag="replay")
    f = [x for x in AT.trace_findings(results[1], rec) if prop in x[0]]
    for own, label, detail in f:
        print(f"VIOLATION property={prop} replay={path}")
        print(label, json.dumps(detail)[:2000])
    return 1 if f else 0
