"""The engines the property checks are assembled from.

 traces(...)  code -> spec : record real executions, validate them with Trace_Pipeline.tla, attribute disagreements
 menu(...)    spec -> code : TLC enumerates every document over a menu of lines (MC_Menu.tla) checking the property
                             invariants on the specification, each behaviour is replayed through the real code
"""
from __future__ import annotations
import os, random
from common import Reporter, SEED, MachineryError, uncp, master_dialects
import record as R, pipeline as PL, replay as RP, attribute as AT, gen


# ------------------------------------------------------------------------------------------------ sources
def src_corpus():
    return [("corpus:" + n, s, "en") for n, s in PL.corpus_sources()]


def src_generated(n: int, seed: int, dialects: list[str] | None = None):
    out = []
    langs = master_dialects()
    r = random.Random(seed)
    for i in range(n):
        s = seed * 1000003 + i
        if dialects:
            d = r.choice(dialects)
            # non-default dialects: half via header with default en, half as the matcher's default dialect
            if r.random() < 0.5:
                out.append((f"gen:{d}:hdr:{s}", gen.doc(s, d, header=True, langs=langs), "en"))
            else:
                out.append((f"gen:{d}:def:{s}", gen.doc(s, d, header=False, langs=langs), d))
        else:
            out.append((f"gen:en:{s}", gen.doc(s, "en", langs=langs), "en"))
    return out


def src_noisy(n: int, seed: int):
    langs = master_dialects()
    return [(f"noisy:{seed * 1000003 + i}", gen.noisy(seed * 7 + i, gen.doc(seed * 1000003 + i, "en", langs=langs)), "en") for i in range(n)]


import re as _re
_TAG_BLANK = _re.compile(r"@\s+[^\s@#]")


def known_finding_input(s: str) -> bool:
    """Inputs of the two recorded known findings; generators avoid them, one probe per class keeps each visible (C01 path probe, C04 MC_Tags)."""
    if R.source_is_path(s):
        return True             # C01/source-names-existing-path: such a string is not parsed as text at all
    for l in s.split("\n"):
        t = l.strip()
        if t.startswith("@") and _TAG_BLANK.search(_re.split(r"\s#", t)[0]):
            return True         # C04/tag-blank-after-at
    return False


def src_limits():
    """Error-limit and long look-ahead documents: more than 11 faults of one kind; tag lines far from their Scenario / Examples line."""
    out = []
    for k in (10, 11, 12, 14):
        out.append((f"limit:tags-in-description:{k}", "Feature: f\n  text\n" + "".join(f"  @bad tag{i}\n" for i in range(k)), "en"))
        out.append((f"limit:ragged:{k}", "Feature: f\n  Scenario: s\n" + "".join(f"    Given x{i}\n      | a |\n      | a | b |\n" for i in range(k)), "en"))
        out.append((f"limit:mixed:{k}", "Feature: f\n  Scenario: s\n" + "".join(f"    Given x{i}\n      | a |\n      | a | b |\n  @bad tag{i}\n  junk{i}\n" for i in range(k)), "en"))
        out.append((f"limit:same-tag-error-twice:{k}", "Feature: f\n  Scenario: s\n    Given x\n      | a |\n      | a | b |\n  @ok\n  @bad tag\n" + "  @ok\n" * k + "  Scenario: t\n", "en"))
    for n in (5, 31, 32, 33, 64, 200):
        skip = "".join(["  # c\n", "\n", "  @t\n"][i % 3] for i in range(n))
        out.append((f"lookahead:scenario:{n}", "Feature: f\n  @a\n" + skip + "  Scenario: s\n    Given x\n", "en"))
        out.append((f"lookahead:examples:{n}", "Feature: f\n  Scenario Outline: s\n    Given <h>\n  @a\n" + skip + "    Examples:\n      | h |\n      | 1 |\n", "en"))
        out.append((f"lookahead:rule:{n}", "Feature: f\n  Scenario: s\n    Given x\n  @a\n" + skip + "  Rule: r\n", "en"))
        out.append((f"lookahead:eof:{n}", "Feature: f\n  Scenario: s\n    Given x\n  @a\n" + skip, "en"))
    # spellings of dialect names that are NOT in the table (only the exact name selects a dialect)
    for k, nm in enumerate(["en_au", "zh_CN", "sr_Latn", "EN", "en-AU", "en_", "fr-", "en-lol ", "e n"]):
        out.append((f"unknown-dialect:{k}", f"# language: {nm}\nFeature: f\n  Scenario: s\n    Given x\n", "en"))
        out.append((f"unknown-dialect-indented:{k}", " " * (k + 1) + f"# language: {nm}\n\t# language: xx\nFeature: f\n  Scenario: s\n    Given x\n", "en"))
    # sources without a final line break whose last line is a bare keyword / an unfinished construct
    for k, tail in enumerate(["Feature", "Feature: f\n  Scenario", "Feature: f\n  Rule", "Feature: f\n  Scenario: s\n    Given", "Feature: f\n  Scenario: s\n    *",
                              "Feature: f\n  Scenario Outline: s\n    Examples", "Feature: f\n  Background", "@", "#", "|", "Feature: f\n  Scenario: s\n    Given x\n      \"\"\"", "# language"]):
        out.append((f"no-final-eol:{k}", tail, "en"))
    # a carriage return that is not part of a CR LF pair is an ordinary character of its line
    out.append(("lone-cr", "Feature: a\rb\n  Scenario: s\rt\n    Given x\ry\n      | c\rd |\n  # e\rf\n    Then z\r\r\n", "en"))
    out.append(("lone-cr-junk", "Feature: f\n junk\rmore\n  Scenario: s\r\n\r  @t\r\n", "en"))
    # very wide tables (more cells than any small-integer cache), tables made of cell-less rows, a background step with a table
    wide = "|".join(str(i % 10) for i in range(257))
    out.append(("wide-table", f"Feature: f\n  Scenario: s\n    Given x\n      |{wide}|\n      |{wide}|\n", "en"))
    out.append(("cellless-rows", "Feature: f\n  Scenario Outline: s\n    Given x\n      |\n      |\n    Examples:\n      |\n      |\n      |\n    Examples:\n      |  |\n      | v |\n", "en"))
    out.append(("empty-header-cell", "Feature: f\n  Scenario Outline: <>\n    Given <> and <a>\n      | <> |\n    Examples:\n      |  | a |\n      | v | w |\n", "en"))
    out.append(("background-table", "Feature: f\n  Background: b\n    Given x\n      | a | b |\n      | c | d |\n      | e | f |\n    And y\n      \"\"\"\n      d\n      \"\"\"\n  Scenario: s\n    Then z\n"
                "  Rule: r\n    Background:\n      Given q\n        | g |\n        | h |\n    Scenario: t\n      Then u\n", "en"))
    # example values that mention other columns' placeholders (the order in which columns are applied shows)
    out.append(("column-cross-reference", "Feature: f\n  Scenario Outline: <a> <b> <c>\n    Given <a>-<b>-<c>\n      | <c><b><a> |\n    Examples:\n      | a | b | c |\n      | <b> | <c> | <a> |\n      | <c><c> | <a> | x |\n", "en"))
    # text that changes under Unicode normalisation (combining marks, compatibility characters) in names, steps, cells, headers, tags, doc strings
    out.append(("nfc-unstable", "@e\u0301 @\u212b\nFeature: e\u0301 \u2126\n  de\u0301sc\n  Scenario Outline: <e\u0301> <\u00e9>\n    Given <e\u0301> a\u030a\u0323 <\u00e9>\n      | e\u0301 | x | \u0e01\u0e33 | y |\n"
                "      \n    When d\n      \"\"\" e\u0301\n      <e\u0301> <\u00e9>\n      \"\"\"\n    Examples:\n      | e\u0301 | b |\n      | 1 | 2 |\n", "en"))
    # doc string content indented with other blanks than its delimiter; a tag carrying a placeholder
    out.append(("mixed-indent-docstring", "Feature: f\n  Scenario: s\n    Given x\n      \"\"\"\n\t\t\t\t\t\ttabbed\n   \t  mixed\n\u3000\u3000\u3000\u3000\u3000\u3000wide\n      \"\"\"\n", "en"))
    out.append(("tag-placeholder", "@f<id>\nFeature: f\n  @issue<id> @<id>\n  Scenario Outline: s <id>\n    Given <id>\n    @e<id>\n    Examples:\n      | id |\n      | 17 |\n", "en"))
    # the same tag run on the same line, continued differently (Scenario / Rule / Examples / end of file) right after the feature line and after a background
    for k, (pre, cont) in enumerate([(p, c) for p in ("Feature: f\n", "Feature: f\n  Background:\n    Given b\n") for c in ("  Scenario: s\n", "  Rule: r\n", "  Scenario Outline: o\n    Examples:\n", "")]):
        out.append((f"tag-run-continued:{k}", pre + "  @a\n  # c\n  @b\n" + cont, "en"))
    # unexpected lines that are long or contain formatting characters (they are quoted in the error message)
    for k, junk in enumerate(["q" * 300, "w" * 1000, "100% of {0} and %s %d", "back\\slash \\1 \\g<0>", "'quoted' \"double\"", "tab\tinside\tline  "]):
        out.append((f"odd-unexpected-line:{k}", f"Feature: f\n  Scenario: s\n    Given x\n      | a |\n{junk}\n    Then y\n", "en"))
    # the same row text twice at different indentation; a header after blank / comment lines
    out.append(("same-row-twice", "Feature: f\n  Scenario: s\n    Given x\n      | a | b |\n    | a | b |\n\t| a | b |\n    When y\n  | a | b |\n      | a | b |\n", "en"))
    out.append(("header-after-blank", "\n# c\n\n# language: fr\nFonctionnalité: f\n  Scénario: s\n    Soit x\n", "en"))
    # one physical line longer than any buffer; identical tag lines at different indentation; a byte-order mark as first character
    out.append(("long-lines", "Feature: f\n  " + "x" * 70000 + "\n  Scenario: s\n    Given " + "y" * 70000 + "\n", "en"))
    out.append(("same-tag-line-twice", "  @a @b\nFeature: f\n      @a @b\n  Scenario: s\n\t@a @b\n  Scenario: t\n", "en"))
    out.append(("bom-first", "\ufeffFeature: f\n  Scenario: s\n", "en"))
    out.append(("bom-first-comment", "\ufeff# c\nFeature: f\n", "en"))
    # delimiter runs longer than three characters: the fourth character onwards is media type text (opening) / ignored (closing)
    for k, (o, c) in enumerate([('""""', '"""'), ('""""json', '""""'), ('"""" x', '"""'), ('````', '```'), ('````md', '````'), ('`````` x', '```'), ('"""`', '"""'), ('```"""', '```'), (' """"""', '"""""" # end')]):
        out.append((f"fence-run:{k}", f"Feature: f\n  Scenario: s\n    Given x\n      {o}\n      one\n       two\n      {c}\n    And y\n", "en"))
    # keywords spelled with decomposed characters are not keywords (matching is by code point, not by canonical equivalence)
    import unicodedata as _ud
    for k, (hdr, lines) in enumerate([("fr", ["Fonctionnalit\u00e9: f", "  Sc\u00e9nario: s", "    Soit x", "  R\u00e8gle: r", "    Sc\u00e9nario: t", "      \u00c9tant donn\u00e9 y"]),
                                      ("de", ["Funktionalit\u00e4t: f", "  Szenario: s", "    Angenommen x"]), ("sv", ["Egenskap: e", "  Scenario: s", "    Givet x", "  Abstrakt Scenario: o", "    N\u00e4r <a>", "    Exempel:", "      | a |", "      | 1 |"]),
                                      ("es", ["Caracter\u00edstica: f", "  Escenario: s", "    Dado x", "    Y z"]), ("pt", ["Funcionalidade: f", "  Cen\u00e1rio: s", "    Dado x", "    Ent\u00e3o z"])]):
        for j in range(len(lines)):
            if _ud.normalize("NFD", lines[j]) != lines[j]:
                body = "\n".join(_ud.normalize("NFD", l) if i == j else l for i, l in enumerate(lines)) + "\n"
                out.append((f"nfd-keyword:{hdr}:{j}", f"# language: {hdr}\n" + body, "en"))
                out.append((f"nfd-keyword-default:{hdr}:{j}", body, hdr))
    # the error limit reached by a builder error (ragged table closed by a tag line) while look-ahead tokens are still queued
    for k in (8, 9, 10, 11):
        out.append((f"limit:builder-error-during-lookahead:{k}", "Feature: first\n  Scenario: s\n    Given a\n" + "".join(f"    junk {i}\n" for i in range(k)) +
                    "    Given a table\n      | a | b |\n      | c |\n    @tag\n\n    # c\n    Scenario: left over\n      Given never reached\n", "en"))
        out.append((f"limit:builder-error-during-examples-lookahead:{k}", "Feature: first\n  Scenario Outline: s\n    Given a\n" + "".join(f"    junk {i}\n" for i in range(k)) +
                    "    Examples:\n      | a | b |\n      | c |\n    @tag\n    @tag2\n    Examples: left over\n      | d |\n", "en"))
    # several examples tables with the same row values under permuted / different headers; the same template under each
    out.append(("permuted-headers", "Feature: f\n  Scenario Outline: o <a>\n    Given <a> then <b>\n      | <a> | <b> |\n    And doc\n      \"\"\"\n      <a>-<b>\n      \"\"\"\n    Examples:\n      | a | b |\n      | 1 | 2 |\n"
                "    Examples:\n      | b | a |\n      | 1 | 2 |\n    Examples:\n      | a | c |\n      | 1 | 2 |\n    Examples:\n      | c | b |\n      | 1 | 2 |\n", "en"))
    out.append(("permuted-headers-next-document", "Feature: g\n  Scenario Outline: o <a>\n    Given <a> then <b>\n      | <a> | <b> |\n    Examples:\n      | b | a |\n      | 1 | 2 |\n", "en"))
    # a tag line whose comment follows a tab / no-break space / several blanks; a '#' inside and at the start of cells; a '#' after the last pipe
    out.append(("tag-comment-after-blanks", "@a\t#c\nFeature: f\n  @b\u00a0#c @d\n  @e \t #\n  @f\u3000# @g\n  Scenario: s\n    Given x\n  @h# @i\n  Scenario: t\n", "en"))
    out.append(("hash-in-cells", "Feature: f\n  Scenario Outline: s\n    Given x\n      | item | # of items | price |\n      | # |#| a #b |\n      |\t# c | d\t#| #|\n    Examples:\n      | # a | b # |\n      | 1 # | # 2 |\n", "en"))
    # a described scenario / rule / examples after a doc string (the doc string's indentation must not outlive it)
    out.append(("description-after-docstring:0", "Feature: f\n  Scenario: one\n    Given a\n      \"\"\"\n      text\n      \"\"\"\n\n  Scenario: two\n      described here\n        and here\n    Given b\n", "en"))
    out.append(("description-after-docstring:1", "Feature: f\n  Scenario Outline: two\n    Given <b>\n        ```\n        t\n        ```\n    Examples:\n            deep\n       | b |\n       | 1 |\n\n  Rule: r\n    a rule description\n", "en"))
    out.append(("description-after-docstring:2", "Feature: f\n  Background:\n    Given <b>\n    \"\"\"\n    t\n    \"\"\"\n\n  Rule: r\n    a rule description\n     more\n    Example: e\n     described\n", "en"))
    # keyword types: a document ending on an action / outcome step, then documents whose FIRST step is a conjunction (scenario, outline, background)
    out.append(("types:ends-with-when", "Feature: f\n  Scenario: s\n    Given a\n    When b\n", "en"))
    out.append(("types:outline-starts-with-and", "Feature: f\n  Scenario Outline: o\n    And <a>\n    But b\n    Examples:\n      | a |\n      | 1 |\n      | 2 |\n", "en"))
    out.append(("types:ends-with-then", "Feature: f\n  Scenario Outline: o\n    Then <a>\n    Examples:\n      | a |\n      | 1 |\n", "en"))
    out.append(("types:scenario-starts-with-but", "Feature: f\n  Background:\n    * b\n  Scenario: s\n    But a\n    And c\n", "en"))
    out.append(("types:outline-after-outline", "Feature: f\n  Scenario Outline: o\n    When <a>\n    Examples:\n      | a |\n      | 1 |\n  Scenario Outline: p\n    And <a>\n    Examples:\n      | a |\n      | 1 |\n      | 2 |\n", "en"))
    # a matcher whose default dialect is not English: header-less documents before and after one that switches to English by header
    for k, s in enumerate(["Fonctionnalit\u00e9: f\n  Sc\u00e9nario: s\n    Soit x\n", "# language: en\nFeature: f\n  Scenario: s\n    Given x\n", "Fonctionnalit\u00e9: g\n  Sc\u00e9nario: t\n    Soit y\n",
                           "# language: de\nFunktionalit\u00e4t: f\n  Szenario: s\n    Angenommen x\n", "Feature: english without header\n  Scenario: s\n    Given x\n", "# language: fr\nFonctionnalit\u00e9: h\n", "Fonctionnalit\u00e9: i\n"]):
        out.append((f"french-default:{k}", s, "fr"))
    # carriage returns at line ends that are not one CR LF pair: CR CR LF inside doc strings, descriptions, comments, names; a last line ending in a bare CR
    out.append(("cr-cr-lf", "Feature: f\r\r\n  first line\r\r\n  Scenario: s\r\n    Given x\r\r\n      \"\"\"\r\n      payload\r\r\n      \r\r\n      \"\"\"\r\n  # c\r\r\n    Then y\r\n", "en"))
    for k, tail in enumerate(["Feature: f\r\n  first line\r\n  last line\r", "Feature: f\r\n  Scenario: s\r\n    Given x\r\n      \"\"\"\r\n      payload\r", "Feature: f\r\n# done\r", "Feature: f\r\n  Scenario: s\r",
                              "Feature: f\r\n  Scenario: s\r\n    Given x\r\n      | a |\r", "Feature: f\n  text\r\r", "Feature: f\r\n  @t\r"]):
        out.append((f"final-cr:{k}", tail, "en"))
    # separator / control characters inside cells, example values, header names, names and doc strings (they are ordinary characters)
    for k, ch in enumerate(["\x1f", "\x1e", "\x1c", "\x00", "\x7f", "\x85", "\u2028", "\x0b", "\x0c", "\ufffe"]):
        out.append((f"control-character:{k}", f"Feature: f{ch}g\n  Scenario Outline: o{ch}<a{ch}b> <c>\n    Given p{ch}q <c> <a{ch}b>\n      | u{ch}v | <c> | x{ch}<a{ch}b>{ch}y |\n      | <c>{ch}<c> | 2 | 3 |\n"
                    f"    And doc\n      \"\"\"\n      d{ch}<c>{ch}e\n      \"\"\"\n    Examples:\n      | a{ch}b | c |\n      | 1{ch}2 | m{ch}n |\n", "en"))
    # a backslash directly before the escaped form of the delimiter; the escaped forms next to each other and at the line ends
    out.append(("backslash-before-escaped-delimiter", "Feature: f\n  Scenario: s\n    Given x\n      \"\"\"\n      \\\\\"\\\"\\\" a\n      b \\\\\\\"\\\"\\\"\n      \\\"\\\"\\\"\\\"\\\"\\\"\n      \\\\`\\`\\`\n      \"\"\"\n"
                "    And y\n      ```\n      \\\\`\\`\\` a\n      \\`\\`\\`\\`\\`\\`\\\n      \\\\\"\\\"\\\"\n      ```\n", "en"))
    # doc strings with content in every place a step can stand: scenario / outline / background, at feature level and inside a first and a second rule
    for k, (pad, pre, post) in enumerate([("", "", ""), ("  ", "  Rule: r1\n", "  Rule: r2\n    Scenario: s3\n      Given d\n"), ("  ", "  Scenario: s0\n    Given z\n  Rule: r0\n    Example: e\n  Rule: r1\n", "  Rule: r2\n")]):
        for j, (kw, tail) in enumerate([("Scenario", ""), ("Scenario Outline", f"{pad}    Examples:\n{pad}      | x |\n{pad}      | 1 |\n"), ("Background", "")]):
            out.append((f"docstring-in:{k}:{j}", f"Feature: f\n{pre}{pad}  {kw}: s1\n{pad}    Given a <x>\n{pad}      \"\"\"text/plain\n{pad}      Rule: not a rule\n{pad}        @tag\n# comment\n\n{pad}      | a |\n{pad}      ```\n"
                        f"{pad}      Scenario: no\n{pad}      \"\"\"\n{pad}    Then b\n{pad}      ```\n{pad}      c\n{pad}      ```\n{tail}\n{pad}  Scenario: s2\n{pad}    Given c\n{post}", "en"))
    # empty-but-present constructs: empty names, an empty doc string, empty cells, cell-less rows, a description of blank lines only, a tag line of blanks and a comment
    out.append(("empty-constructs:0", "Feature:\n  Rule:\n    Background:\n      * \n    Scenario:\n      Given \n        \"\"\"\n        \"\"\"\n      And\n        ```\n\n        ```\n    Scenario Outline:\n      When <>\n        ||\n"
                "      Examples:\n        |  |\n        |  |\n      Examples:\n      Examples:\n        | a |\n", "en"))
    out.append(("empty-constructs:1", "Feature: \n\n   \n  \t\n  Scenario: \n\n    \n  @a\n  #\n  @b  #  \n  Scenario:\n    * x\n      | |  |   |\n      ||||\n", "en"))
    out.append(("empty-constructs:2", "#language:en\n@\nFeature: f\n", "en"))
    out.append(("empty-constructs:3", "Feature: f\n  Scenario Outline: o\n    Given <a>\n    Examples:\n      | a |\n    Examples:\n      | a |\n      |  |\n    @t\n    Examples:\n", "en"))
    # wide (non-BMP) characters BEFORE the thing whose column is reported: tags, cells, comment after a tag, keyword after a wide blank is not possible -- but names and texts
    out.append(("wide-before", "@\U0001f600a @b\U0001f600 @c\nFeature: \U0001f600 f\n  Scenario Outline: \U0001f600<\U0001f600>\n    Given \U0001f600 <\U0001f600> x\n      | \U0001f600 | b\U0001f600 |  \U0001f600c |\n"
                "      | \\|\U0001f600 | \\n | d |\n    @\U0001f600 @e #\U0001f600\n    Examples: \U0001f600\n      | \U0001f600 | x |\n      | \U0001f600\U0001f600 | \U0001f600 |\n", "en"))
    out.append(("wide-before-error", "Feature: f\n  Scenario: s\n    Given x\n      | \U0001f600 | b |\n      | \U0001f600 |\n  @\U0001f600 bad \U0001f600\n \U0001f600junk\n", "en"))
    # a description that starts after one, two, three blank lines, for every titled element (the blank lines are not part of it)
    out.append(("description-after-blanks:0", "Feature: f\n\n\n  feature text\n\n  Rule: r\n\n\n    rule text\n\n    Background: b\n\n      background text\n      more\n\n    Example: e\n\n\n\n      example text\n", "en"))
    out.append(("description-after-blanks:1", "Feature: f\n  Scenario Outline: o\n\n\n    outline text\n    Given <a>\n    Examples: e\n\n\n      examples text\n      | a |\n      | 1 |\n  Rule: r\n\n  \n \t\n    rule text\n", "en"))
    out.append(("description-after-blanks:2", "Feature: f\n  @t\n\n  Rule: r\n\n    text\n  @u\n\n\n  @v\n  Rule: q\n\n\n    text\n    Scenario: s\n", "en"))
    # a media type that contains the escaped form of a delimiter, a backslash, a placeholder, blanks inside (it is reported as written, trimmed)
    out.append(("media-type-verbatim", "Feature: f\n  Scenario Outline: o\n    Given x\n      \"\"\"tmpl; fence=\\\"\\\"\\\" \\`\\`\\` \\ <a>\n      c\n      \"\"\"\n    And y\n      ```  a  b\\`\\`\\`c \\\"\\\"\\\"  \n      c\n      ```\n    Examples:\n      | a |\n      | 1 |\n", "en"))
    # a placeholder in exactly ONE of the places where it is substituted (and in the places where it is not: examples name, tags, description, background step)
    places = {"name": ("Scenario Outline: n <a>", "Given s", "| c |", "d", ""), "step": ("Scenario Outline: n", "Given s <a>", "| c |", "d", ""), "cell": ("Scenario Outline: n", "Given s", "| c | <a> | e |", "d", ""),
              "content": ("Scenario Outline: n", "Given s", "| c |", "d <a>", ""), "media": ("Scenario Outline: n", "Given s", "| c |", "d", "m<a>"), "none": ("Scenario Outline: n", "Given s", "| c |", "d", "m")}
    for k, (pl, (title, step, row, content, media)) in enumerate(places.items()):
        out.append((f"placeholder-only-in:{pl}", f"@t<a>\nFeature: f <a>\n  <a> in a description\n  Background:\n    Given b <a>\n  {title}\n    {step}\n      {row}\n    And t\n      \"\"\"{media}\n      {content}\n      \"\"\"\n"
                    f"    @e<a>\n    Examples: x <a>\n      | a | b |\n      | 1 |  |\n      |  | 2 |\n", "en"))
    # several examples tables whose headers go A, B, A (document order, not grouped); a step-less outline whose name carries the placeholder
    out.append(("examples-headers-aba", "Feature: f\n  Scenario Outline: o <a><b>\n    Given <a> <b>\n    Examples: one\n      | a |\n      | 1 |\n    Examples: two\n      | b |\n      | 2 |\n    Examples: three\n      | a |\n      | 3 |\n"
                "    Examples: four\n      | b |\n      | 4 |\n      | 5 |\n", "en"))
    out.append(("stepless-outline-with-rows", "Feature: f\n  Scenario Outline: n <a> <b>\n    Examples:\n      | a | b |\n      | 1 | 2 |\n      | 3 | 4 |\n  Rule: r\n    Scenario Outline: m <a>\n      @t\n      Examples:\n        | a |\n        | 5 |\n", "en"))
    # tag lines of one element on lines 9 and 10, and 99 and 100 (line numbers as text sort differently)
    out.append(("tag-lines-9-10", "Feature: f\n" + "\n" * 7 + "  @nine @n2\n  @ten\n  Scenario: s\n    Given x\n" + "  # c\n" * 86 + "  @ninetynine\n  @hundred @h2\n  Scenario Outline: o\n    Given <a>\n    Examples:\n      | a |\n      | 1 |\n", "en"))
    # two rules with the same NUMBER of tags but different tags; a rule without tags between tagged ones
    out.append(("rules-same-tag-count", "@f\nFeature: f\n  @a @b\n  Rule: one\n    Scenario: s\n      Given x\n  @c @d\n  Rule: two\n    @e\n    Scenario: t\n      Given y\n  Rule: three\n    Scenario: u\n      Given z\n"
                "  @g @h\n  Rule: four\n    Scenario Outline: v\n      Given <a>\n      @i\n      Examples:\n        | a |\n        | 1 |\n      @j\n      Examples:\n        | a |\n        | 2 |\n", "en"))
    # a rule-level background whose step has a table (small: every layout application is tried); shapes of rules and backgrounds that end early
    out.append(("rule-background-table", "Feature: f\n  Rule: r\n    Background:\n      Given q\n        | g |\n        | h |\n    Scenario: t\n      Then u\n", "en"))
    out.append(("rule-shapes:0", "Feature: f\n  Rule: only a background\n    Background:\n      Given rb\n  Rule: next\n    Scenario: s\n      Given x\n  Rule: last\n    Background:\n      Given lb\n    Scenario: t\n      Given y\n", "en"))
    out.append(("rule-shapes:1", "Feature: f\n  Background:\n    Given fb\n  Rule: stepless background\n    Background:\n    Scenario: s\n      Given x\n  Rule: later\n    Scenario: t\n      Given y\n", "en"))
    out.append(("rule-shapes:2", "Feature: f\n  Rule: with background\n    Background:\n      Given rb\n    Scenario: s\n      Given x\n  Rule: later\n    Scenario: t\n      Given y\n  Rule: empty\n  Rule: last\n    Scenario: u\n      Given z\n", "en"))
    # a first line that looks like an encoding declaration of another language's tools (feature files are UTF-8 whatever they say)
    out.append(("coding-comment:0", "# -*- coding: latin-1 -*-\nFeature: caf\u00e9 \u20ac\n  Scenario: s\n    Given \u00e9\n", "en"))
    out.append(("coding-comment:1", "# language: fr\n# vim: set fileencoding=cp1252 :\nFonctionnalit\u00e9: f\n", "en"))
    out.append(("coding-comment:2", "# file encoding: no-such-codec\nFeature: f \u00e9\n", "en"))
    # a doc string line indented LESS than the opening delimiter that also carries the escaped delimiter
    out.append(("outdented-escaped-delimiter", "Feature: f\n  Scenario: s\n    Given x\n        \"\"\"\n  a \\\"\\\"\\\" b\n\\\"\\\"\\\"\n        c \\\"\\\"\\\"\n        \"\"\"\n    And y\n        ```\n   \\`\\`\\`\n        ```\n", "en"))
    # a title keyword and its colon are one piece: blanks (space, tab, no-break space -- French typography) or another colon character between them make the line free text
    for k, (gap, colon) in enumerate([(" ", ":"), ("\t", ":"), ("\u00a0", ":"), ("", "\uff1a"), ("", " :"), ("", ";")]):
        out.append((f"keyword-colon-apart:{k}:after-step", f"Feature: f\n  Scenario: s\n    Given x\n  Scenario{gap}{colon} t\n    Given y\n", "en"))
        out.append((f"keyword-colon-apart:{k}:in-description", f"Feature: f\n  some text\n  Scenario{gap}{colon} not a scenario\n  Background{gap}{colon}\n  Examples{gap}{colon}\n  Rule{gap}{colon} r\n  Scenario: s\n    Given x\n", "en"))
        out.append((f"keyword-colon-apart:{k}:feature", f"Feature{gap}{colon} f\n  Scenario: s\n", "en"))
        out.append((f"keyword-colon-apart:{k}:fr", f"# language: fr\nFonctionnalit\u00e9: f\n  Sc\u00e9nario: s\n    Soit x\n      | a |\n  Sc\u00e9nario{gap}{colon} t\n  Exemples{gap}{colon}\n", "en"))
    # a tag beyond column 1000 followed by tags at the start of the next line, for feature, scenario and examples
    for k, far in enumerate((1000,)):
        pad = " " * far
        out.append((f"tag-far-right:{k}", f"@a{pad}@far\n@next\nFeature: f\n  @b{pad}@far2\n @next2\n  Scenario Outline: s\n    Given <x>\n    @c{pad}@far3\n@next3\n    Examples:\n      | x |\n      | 1 |\n", "en"))
    # counts beyond any small-number threshold (caches, recursion depth, fixed-size buffers): more than a thousand of each repeatable construct
    N = 1100
    out.append(("count:tags-on-line", " ".join(f"@t{i}" for i in range(300)) + "\nFeature: f\n  " + "".join(f"@u{i}" for i in range(300)) + "\n  Scenario: s\n", "en"))
    out.append(("count:tag-lines", "Feature: f\n" + "".join(f"  @t{i}\n" for i in range(300)) + "  Scenario: s\n    Given x\n", "en"))
    out.append(("count:background-steps-outline", "Feature: f\n  Background:\n" + "".join(f"    * b{i}\n" for i in range(25)) + "  Scenario Outline: o\n    Given <a>\n    Examples:\n      | a |\n      | 1 |\n"
                "  Rule: r\n    Background:\n      * c\n    Scenario Outline: p\n      Given <a>\n      Examples:\n        | a |\n        | 1 |\n", "en"))
    out.append(("count:steps", "Feature: f\n  Background:\n" + "".join(f"    * b{i}\n" for i in range(300)) + "  Scenario: s\n" + "".join(f"    {('Given', 'And', 'When', 'But', 'Then', '*')[i % 6]} x{i}\n" for i in range(N)), "en"))
    out.append(("count:example-rows", "Feature: f\n  Scenario Outline: o <a>\n    Given <a>\n    Examples:\n      | a |\n" + "".join(f"      | {i} |\n" for i in range(N)), "en"))
    out.append(("count:examples-tables", "Feature: f\n  Scenario Outline: o <a>\n    Given <a>\n" + "".join(f"    @e{i}\n    Examples: e{i}\n      | a |\n      | {i} |\n" for i in range(300)), "en"))
    out.append(("count:rules", "Feature: f\n" + "".join(f"  Rule: r{i}\n    Background:\n      Given b{i}\n    Example: e\n      Then t\n" for i in range(300)), "en"))
    out.append(("count:columns", "Feature: f\n  Scenario Outline: o\n    Given " + " ".join(f"<c{i}>" for i in range(70)) + "\n    Examples:\n      |" + "|".join(f"c{i}" for i in range(70)) + "|\n      |" + "|".join(f"v{i}" for i in range(70)) + "|\n", "en"))
    out.append(("count:docstring-lines", "Feature: f\n  Scenario: s\n    Given x\n      \"\"\"\n" + "".join(f"      line {i}\n" for i in range(N)) + "      \"\"\"\n", "en"))
    out.append(("count:description-lines", "Feature: f\n" + "".join(f"  text {i}\n" if i % 7 else "  # c\n" for i in range(N)) + "  Scenario: s\n", "en"))
    out.append(("count:comments-and-blanks", "Feature: f\n  Scenario: s\n" + "".join(("  # c%d\n" % i) if i % 2 else "\n" for i in range(N)) + "    Given x\n" + "".join(f"  # d{i}\n" for i in range(N)), "en"))
    out.append(("count:table-rows", "Feature: f\n  Scenario: s\n    Given x\n" + "".join(f"      | {i} | {i % 7} |\n" for i in range(N)), "en"))
    out.append(("count:scenarios-with-tags", "@f\nFeature: f\n" + "".join(f"  @s{i}\n  Scenario: s{i}\n    Given x\n" for i in range(400)), "en"))
    out.append(("count:escapes-in-cell", "Feature: f\n  Scenario Outline: s\n    Given x\n      | " + "\\n" * 40 + " | " + "\\|" * 40 + " | " + "\\\\" * 40 + " | " + "a\\nb\\|c\\\\" * 40 + " |\n"
                "    Examples:\n      | h" + "\\|" * 70 + " |\n      | " + "\\\\n" * 35 + " |\n", "en"))
    out.append(("count:errors", "Feature: f\n" + "".join(f"junk {i}\n" for i in range(N)), "en"))
    # documents that leave a matcher in every non-initial state, each followed by ordinary ones (for re-use passes)
    for k, s in enumerate(["Feature: q\n  Scenario: s\n    Given x\n      \"\"\"\n      open\n", "Feature: ok\n  Scenario: s\n    Given x\n      ```\n      c\n      ```\n    And y\n      \"\"\"\n      d\n      \"\"\"\n",
                           "Feature: b\n  Scenario: s\n    Given x\n        ```\n     open\n", "Feature: i\n    indented description\n  Scenario: s\n    Given x\n      \"\"\"\n      d\n      \"\"\"\n",
                           "# language: fr\nFonctionnalité: f\n  Scénario: s\n    Soit x\n", "Feature: a\n  Scenario: s\n    Given x\n    * y\n"]):
        out.append((f"state-leaving:{k}", s, "en"))
    return out


def record_all(sources, modes=("collect",), listing=False, iff=0, nid0=0):
    """iff: evaluate the rejected-iff-not-a-sentence-or-faulty predicate (P_C14_Iff) on the first `iff` sources (it costs a second spec run)"""
    recs = []
    k = 0
    for name, s, dialect in sources:
        if known_finding_input(s):
            continue
        k += 1
        for m in modes:
            recs.append(R.record(f"{name}|{m}" + (f"|ids-from-{nid0}" if nid0 else ""), s, dialect, m, nid0=nid0, listing=listing and m == "collect", iff=k <= iff and m == "collect" and s.count("\n") <= 300))
    return recs


# ------------------------------------------------------------------------------------------------ code -> spec
def traces(rep: Reporter, recs: list[dict], label: str, batch: int = 1500) -> None:
    prop = rep.prop
    for b in range(0, len(recs), batch):
        part = recs[b:b + batch]
        results, res = PL.validate(part, tag=f"{prop}-trace")
        rep.add_tlc(f"Trace_Pipeline[{label}:{b}]", res, f"{len(part)} recorded executions")
        rep.traces += len(part)
        relational = []
        for tid, r in results.items():
            rec = part[tid - 1]
            text = "".join(uncp(l) for l in rec["lines"])
            rep.case(text, nontrivial=len(rec["lines"]) > 1)
            found = AT.trace_findings(r, rec)
            for own, label_, detail in found:
                if prop in own:
                    rep.violation({"kind": label_.split("@")[0]},
                                  {"engine": "trace", "name": rec["name"], "what": label_, "source": text, "dialect": rec["dialect"],
                                   "mode": rec["mode"], "detail": detail})
            if prop == "C13" and found and not any(prop in own for own, _, _ in found) and any(t["type"] == "DocStringSeparator" for t in rec["toks"]):
                relational.append((rec, found))
        if relational:
            _docstring_relation(rep, relational)
        if part:
            r0 = part[0]
            rep.sample({"trace": r0["name"], "lines": len(r0["lines"]), "accepted": r0["ok"], "tokens": len(r0["toks"]), "errors": len(r0["errs"]),
                        "pickles": len(r0["pickles"])})


def _docstring_relation(rep: Reporter, items) -> None:
    """C13, "after the closing delimiter normal parsing resumes" / "no line [inside] is interpreted as Gherkin": a disagreement with the specification that no
    other clause of C13 owns is C13's too when it is THERE BECAUSE OF THE DOC STRING -- i.e. when the same document with every doc string block (opening line,
    content, closing line, as delivered) replaced by as many comment lines agrees with the specification completely."""
    variants = []
    for rec, found in items:
        lines = [uncp(l) for l in rec["lines"]]
        seps = [t["line"] for t in rec["toks"] if t["type"] == "DocStringSeparator"]
        blocks = [(seps[j], seps[j + 1] if j + 1 < len(seps) else len(lines)) for j in range(0, len(seps), 2)]
        for a, b in blocks:
            for i in range(a, min(b, len(lines)) + 1):
                lines[i - 1] = "#" + ("\n" if lines[i - 1].endswith("\n") else "")
        variants.append(R.record(rec["name"] + "|without-doc-strings", "".join(lines), rec["dialect"], rec["mode"]))
    results, res = PL.validate(variants, tag="C13-relation")
    rep.add_tlc("Trace_Pipeline[doc strings replaced by comment lines]", res, f"{len(variants)} documents that disagree with the specification, re-validated without their doc strings")
    for tid, r in results.items():
        rec, found = items[tid - 1]
        if not AT.trace_findings(r, variants[tid - 1]) and not variants[tid - 1]["exc"]:
            rep.violation({"kind": "docstring-relation"}, {"engine": "trace", "name": rec["name"], "what": "the document disagrees with the specification (" + ", ".join(l for _, l, _ in found) +
                                                           "), and agrees completely once its doc strings are replaced by comment lines: parsing does not resume normally after / is disturbed by a doc string",
                                                           "source": "".join(uncp(l) for l in rec["lines"]), "dialect": rec["dialect"], "mode": rec["mode"]})


def replay_owners(m) -> set[str]:
    """Which properties own the disagreement(s) of one replayed behaviour (all differing fields count)."""
    own: set[str] = set()
    for f in m["fields"]:
        if f == "exception":
            own |= {"C01"}
        elif f == "errs":
            own |= AT.owners_errors(m["spec"]["errs"], m["impl"]["errs"]) | {"C01"}
        elif f == "ndeliv":
            own |= {"C18"}
        elif f == "nid":
            own |= {"C11"}
        elif f == "ast":
            own |= ({"C01", "C14", "C02"} if len(m["spec"]["ast"]) != len(m["impl"]["ast"]) else AT.owners_ast(m["spec"]["ast"], m["impl"]["ast"]))
        else:
            own |= AT.owners_pickles(m["spec"]["pickles"], m["impl"]["pickles"])
    return own


# ------------------------------------------------------------------------------------------------ spec -> code
def menu(rep: Reporter, menu_lines: list[str], n: int, mode: str = "collect", max_errs: int = 2, invariants: list[str] | None = None,
         label: str = "menu", prefix: list[int] | None = None) -> None:
    prop = rep.prop
    cnt, mism, res, behs = RP.enumerate_and_replay(menu_lines, n, mode, max_errs, tag=f"{prop}-menu", invariants=invariants, prefix=prefix)
    rep.add_tlc(f"MC_Menu[{label},N={n},{mode}]", res, f"{cnt} behaviours replayed through Parser.parse/Compiler.compile; invariants {invariants}")
    rep.traces += cnt
    for inv in sorted(set(res.invariant_violations)):
        rep.violation({"kind": "spec-invariant", "invariant": inv},
                      {"engine": "menu", "what": f"specification violates {inv} (model defect, not an implementation verdict)",
                       "tlc_tail": "\n".join(res.out.splitlines()[-60:])})
    for b in behs[:: max(1, len(behs) // 3)][:3]:
        rep.sample({"menu_input": "".join(menu_lines[i - 1] for i in b["input"]), "spec_errors": len(b["errs"]), "spec_pickles": len(b["pickles"])})
    for b in behs:
        rep.case(tuple(b["input"]), nontrivial=len(b["input"]) > 0)
    rep.evaluations -= 0
    for m in mism:
        own = replay_owners(m)
        if prop in own or not own:
            f = next((x for x in m["fields"] if prop in replay_owners(dict(m, fields=[x]))), m["field"])
            rep.violation({"kind": "replay:" + f}, {"engine": "menu", "what": f"replayed behaviour differs in {m['fields']}", "source": m["text"], "mode": mode,
                                                    "exc": m["exc"], "spec": m["spec"].get(f), "impl": m["impl"].get(f)})


def grow(rep: Reporter, menu_lines: list[str], starts, invariants: list[str] | None = None, label: str = "grow",
         no_free_text: bool = True) -> None:
    """MC_Grow: every accepted document over the menu (after a fixed prefix), property invariants on the spec, replay on the code."""
    prop = rep.prop
    cnt, mism, res, behs = RP.grow_and_replay(menu_lines, starts, tag=f"{prop}-grow", invariants=invariants, no_free_text=no_free_text)
    rep.add_tlc(f"MC_Grow[{label},starts={[(len(p), n) for p, n in starts]}]", res, f"{cnt} accepted documents replayed through Parser.parse/Compiler.compile; invariants {invariants}")
    rep.traces += cnt
    for inv in sorted(set(res.invariant_violations)):
        rep.violation({"kind": "spec-invariant", "invariant": inv},
                      {"engine": "grow", "what": f"specification violates {inv}", "tlc_tail": "\n".join(res.out.splitlines()[-60:])})
    for b in behs:
        rep.case(tuple(b["input"]), nontrivial=len(b["pickles"]) > 0)
    if behs:
        b = max(behs[:2000], key=lambda x: len(x["pickles"]))
        rep.sample({"document": "".join(menu_lines[i - 1] for i in b["input"]), "pickles": len(b["pickles"]),
                    "pickle_steps": [len(p["steps"]) for p in b["pickles"]], "pickle_tags": [len(p["tags"]) for p in b["pickles"]]})
    for m in mism:
        own = replay_owners(m)
        if prop in own or not own:
            f = next((x for x in m["fields"] if prop in replay_owners(dict(m, fields=[x]))), m["field"])
            rep.violation({"kind": "replay:" + f}, {"engine": "grow", "what": f"replayed behaviour differs in {m['fields']}", "source": m["text"], "mode": "collect",
                                                    "exc": m["exc"], "spec": m["spec"].get(f), "impl": m["impl"].get(f)})



def layering(rep: Reporter, menu_lines: list[str], n: int, label: str = "layering") -> None:
    """MC_Layering: the big-step code-point parser and the small-step kind-level parser agree on every document over the menu."""
    from common import Scratch, run_tlc, write_dialects, cp
    with Scratch(f"{rep.prop}-layering") as sc:
        write_dialects(sc, ["en", "fr"])
        sc.write_json("menu.json", [cp(m) for m in menu_lines])
        sc.write("MC_Layering.cfg", f"SPECIFICATION Spec\nCONSTANT MaxLines = {n}\nINVARIANT Inv_GrainsAgree\nVIEW L0View2\nCHECK_DEADLOCK FALSE\n")
        src = open(sc.path("MC_Layering.tla")).read().replace("=" * 77, "L0View2 == <<L0View, vDoc>>\n" + "=" * 77)
        sc.write("MC_Layering.tla", src)
        res = run_tlc(sc, "MC_Layering", timeout=3000, extra=["-continue"])
    if "Parsing or semantic analysis failed" in res.out or not res.finished or any("Invariant" not in x and "violated" not in x for x in res.errors):
        raise MachineryError("MC_Layering did not complete:\n" + "\n".join(res.out.splitlines()[-40:]))
    rep.add_tlc(f"MC_Layering[{label},N={n}]", res, "Gherkin.tla (big step, code points) = ParserL0.tla (small steps, kinds) on every document over the menu: Inv_GrainsAgree")
    for inv in sorted(set(res.invariant_violations)):
        rep.violation({"kind": "spec-invariant", "invariant": inv}, {"engine": "MC_Layering", "what": f"{inv} violated: the two grains of the parser specification disagree",
                                                                     "tlc_tail": res.out[-3000:]})


def reuse_pass(rep: Reporter, sources, label: str = "reuse", default: str = "en") -> None:
    """The documents, in order, through ONE Parser and ONE TokenMatcher: every outcome must equal the outcome from fresh objects."""
    import sessions as S
    from gherkin.parser import Parser
    from gherkin.ast_builder import AstBuilder
    from gherkin.token_matcher import TokenMatcher
    from gherkin.stream.id_generator import IdGenerator
    import copy
    idg = IdGenerator()
    parser, matcher = Parser(AstBuilder(idg)), TokenMatcher(default)
    n = 0
    kept = []
    for name, s, d in sources:
        if d != default or known_finding_input(s):
            continue
        n += 1
        idg._id_counter = 0
        reused, doc = S.outcome(lambda: parser.parse(s, matcher))
        for obj, snap, nm in kept[-3:]:
            if obj != snap:
                rep.violation({"kind": "earlier-result-changed"}, {"engine": "reuse", "what": "the document returned for an earlier source changed when a later one was parsed",
                                                                   "earlier": nm, "source": s})
                kept = []
                break
        if doc is not None:
            kept.append((doc, copy.deepcopy(doc), name))
        fresh, _ = S.outcome(lambda: Parser(AstBuilder(IdGenerator())).parse(s, TokenMatcher(default)))
        rep.case((label, name))
        if reused != fresh:
            rep.violation({"kind": "reused-objects"}, {"engine": "reuse", "what": "a parser / matcher used before gives a different result than fresh ones", "source": s,
                                                      "after": name, "fresh": fresh, "reused": reused})
    rep.traces += n


def compiler_reuse_pass(rep: Reporter, sources, label: str = "compiler-reuse") -> None:
    """Documents parsed by FRESH parsers (so their ids collide) compiled one after the other by ONE Compiler: each result must equal, ids aside,
    what a fresh Compiler gives."""
    import sessions as S
    from gherkin.parser import Parser
    from gherkin.token_matcher import TokenMatcher
    from gherkin.pickles.compiler import Compiler
    shared = Compiler()

    def strip(ps):
        return [{k: v for k, v in p.items() if k != "id"} | {"steps": [{a: b for a, b in s.items() if a != "id"} for s in p["steps"]]} for p in ps]
    n = 0
    import copy
    held = []
    for name, s, d in sources:
        if known_finding_input(s):
            continue
        try:
            doc = Parser().parse(s, TokenMatcher(d))
        except Exception:  # noqa: BLE001
            continue
        doc["uri"] = "u"
        n += 1
        try:
            fresh = strip(Compiler().compile(doc))
            result = shared.compile(doc)
            again = strip(result)
            for obj, snap, nm in held:
                if obj != snap and rep.prop in ("C06", "C15"):
                    rep.violation({"kind": "earlier-pickles-changed"}, {"engine": "reuse", "what": "the pickle list returned for an earlier document changed when the same Compiler "
                                                                        "compiled a later one", "earlier": nm, "source": s, "was": strip(snap)[:2], "now": strip(obj)[:2]})
                    held = []
                    break
            held = (held + [(result, copy.deepcopy(result), name)])[-2:] if result else held
        except Exception as x:  # noqa: BLE001 -- an exception from compile is itself an observation
            rep.case((label, name))
            if rep.prop in ("C01", "C06", "C07", "C08", "C09", "C10", "C11", "C15"):
                rep.violation({"kind": "compile-exception"}, {"engine": "reuse", "what": "Compiler.compile raised " + type(x).__name__ + ": " + str(x)[:200], "source": s})
            continue
        rep.case((label, name))
        if fresh != again:
            own = AT.owners_pickles(fresh, again) | {"C15"}
            if rep.prop in own:
                rep.violation({"kind": "compiler-reuse"}, {"engine": "reuse", "what": "a Compiler that compiled other documents before gives different pickles (ids aside) than a fresh one",
                                                          "source": s, "fresh": fresh[:3], "reused": again[:3]})
    rep.traces += n


def usage_variants_pass(rep: Reporter, sources, label: str = "usage") -> None:
    """The same source handed over in every way the API allows -- a str, a subclass of str, a TokenScanner made from the text, a file named by a str path, a TokenScanner
    made from that path; default matcher / default builder left out or given explicitly; stop_at_first_error assigned after construction -- gives the same outcome."""
    import sessions as S
    import tempfile, shutil, os
    from gherkin.parser import Parser
    from gherkin.ast_builder import AstBuilder
    from gherkin.token_matcher import TokenMatcher
    from gherkin.token_scanner import TokenScanner
    from gherkin.stream.id_generator import IdGenerator

    class Text(str):
        pass

    d = tempfile.mkdtemp(prefix="verif-usage-")
    n = 0
    try:
        for k, (name, s, dialect) in enumerate(sources):
            if known_finding_input(s) or not s:
                continue
            n += 1
            for stop in (False, True):
                def parser():
                    p = Parser(AstBuilder(IdGenerator()))
                    p.stop_at_first_error = stop
                    return p
                ref, _ = S.outcome(lambda: parser().parse(s, TokenMatcher(dialect)))
                variants = {"str subclass": lambda: parser().parse(Text(s), TokenMatcher(dialect)),
                            "TokenScanner(text)": lambda: parser().parse(TokenScanner(s), TokenMatcher(dialect))}
                def assigned_later():
                    p = Parser()
                    p.ast_builder = AstBuilder(IdGenerator())
                    p.stop_at_first_error = stop
                    return p.parse(s, TokenMatcher(dialect))
                variants["builder assigned after construction"] = assigned_later

                def front_matter_consumed(k=3):
                    """the caller has read k lines of front matter from the scanner before handing it to the parser: the lines keep their physical numbers"""
                    sc = TokenScanner("---\n" * k + s)
                    for _ in range(k):
                        sc.read()
                    return parser().parse(sc, TokenMatcher(dialect))
                if not s.startswith("---") and "\x00" not in s:
                    variants["TokenScanner after 3 lines were read from it"] = front_matter_consumed
                if dialect == "en":
                    variants["default matcher"] = lambda: parser().parse(s)
                    variants["default builder"] = lambda: _default_builder(Parser(), stop).parse(s, TokenMatcher("en"))
                if "\r" not in s and "\x00" not in s:
                    path = os.path.join(d, f"{k}.feature")
                    with open(path, "w", encoding="utf8", newline="") as fh:
                        fh.write(s)
                    variants["file path"] = lambda: parser().parse(path, TokenMatcher(dialect))
                    variants["TokenScanner(path)"] = lambda: parser().parse(TokenScanner(path), TokenMatcher(dialect))
                for how, fn in variants.items():
                    got, _ = S.outcome(fn)
                    rep.case((label, how, stop, name))
                    if how.startswith("TokenScanner after"):
                        got = _shift_lines(got, -3)
                    if got != ref:
                        rep.violation({"kind": "usage-variant"}, {"engine": "usage", "what": f"the source given as {how} (stop_at_first_error={stop}) gives a different outcome than the same text given as a str",
                                                                  "source": s, "as_str": str(ref)[:400], "variant": str(got)[:400]})
                        break
    finally:
        shutil.rmtree(d, ignore_errors=True)
    rep.traces += n


def _shift_lines(v, k):
    if isinstance(v, dict):
        return {a: (b + k if a == "line" and isinstance(b, int) else _shift_lines(b, k)) for a, b in v.items()}
    if isinstance(v, list):
        return [_shift_lines(x, k) for x in v]
    return v


def _default_builder(parser, stop):
    parser.stop_at_first_error = stop
    return parser


def many_uses_pass(rep: Reporter, n: int, label: str = "many-uses") -> None:
    """More uses of ONE Parser / TokenMatcher / Compiler than any cache or counter threshold: n distinct small documents (and one document n times); every result
    equals the result from fresh objects (pickle and node ids relative to the first id of the document)."""
    import sessions as S, gen
    from gherkin.parser import Parser
    from gherkin.ast_builder import AstBuilder
    from gherkin.token_matcher import TokenMatcher
    from gherkin.pickles.compiler import Compiler
    from gherkin.stream.id_generator import IdGenerator
    shapes = ["Feature: f{i}\n  Scenario: s{i}\n    Given x{i}\n", "@t{i}\nFeature: g\n  Scenario Outline: o <a{i}>\n    Given <a{i}> y\n    Examples:\n      | a{i} |\n      | v{i} |\n",
              "Feature: h\n  Background:\n    Given b{i}\n  Rule: r{i}\n    Example: e\n      When w\n        | c{i} | d |\n      Then t\n        \"\"\" m{i}\n        d{i}\n        \"\"\"\n",
              "Feature: bad{i}\n  junk{i}\n  Scenario: s\n    Given x\n      | a |\n      | a | b{i} |\n  @bad tag{i}\n", "# language: fr\nFonctionnalité: f{i}\n  Scénario: s\n    Soit x{i}\n"]
    idg = IdGenerator()
    parser, matcher, comp = Parser(AstBuilder(idg)), TokenMatcher(), Compiler(idg)

    def run(p, m, c, g, s):
        def go():
            g._id_counter = 0
            doc = p.parse(s, m)
            doc["uri"] = "u"
            pk = c.compile(doc)
            return doc, pk
        try:
            return ("ok",) + go()
        except Exception as x:  # noqa: BLE001
            return ("exception", type(x).__name__, str(x)[:300])
    for i in range(n):
        s = shapes[i % len(shapes)].replace("{i}", str(i)) if i % 3 else shapes[0].replace("{i}", "")
        g = IdGenerator()
        fresh = run(Parser(AstBuilder(g)), TokenMatcher(), Compiler(g), g, s)
        used = run(parser, matcher, comp, idg, s)
        rep.case((label, i))
        if fresh != used:
            rep.violation({"kind": "many-uses"}, {"engine": "reuse", "what": f"use number {i + 1} of one Parser / TokenMatcher / Compiler gives a different result than fresh objects", "source": s,
                                                   "fresh": str(fresh)[:300], "used": str(used)[:300]})
            break
    rep.traces += n


def ast_variants_pass(rep: Reporter, sources, label: str = "ast-variants") -> None:
    """Compiler.compile on ASTs as parsed, after JSON / pickle round trips, and with scenario / rule children in other orders: Trace_Compile.tla."""
    import astlevel as A
    items = A.record(sources, known_finding_input)
    v, res = A.validate(items)
    rep.add_tlc("Trace_Compile", res, f"{len(items)} executions of Compiler.compile on parsed, round-tripped and re-ordered ASTs: recorded pickles = operational compiler, declarative predicates C06-C10")
    rep.traces += len(items)
    pred = {"c06": "C06", "c07": "C07", "c08": "C08", "c09": "C09", "c10": "C10"}
    for tid, m in v.items():
        it = items[tid - 1]
        rep.case((label, it["name"]))
        own: set[str] = set()
        what = []
        if it["exc"]:
            own |= {"C01", "C06", "C07", "C08", "C09", "C10"}
            what.append("compile raised " + it["exc"])
        else:
            if not m["operational"]:
                own |= AT.owners_pickles(m["spec"][0], it["pickles"])
                what.append("pickles differ from the operational compiler")
            if not m["counter"]:
                own |= {"C11"}
                what.append("id counter after compile")
            for k, p in pred.items():
                if not m[k]:
                    own |= {p}
                    what.append("predicate " + k)
        if rep.prop in own:
            rep.violation({"kind": "ast-variant"}, {"engine": "Trace_Compile", "what": "; ".join(what), "variant": it["variant"], "source": it["source"], "name": it["name"],
                                                    "spec": (m["spec"][0][:2] if m["spec"] else None), "impl": it["pickles"][:2]})


def prepared_matchers_pass(rep: Reporter, sources, label: str = "prepared-matchers") -> None:
    """Several matchers alive at once: one TokenMatcher per default dialect is constructed up front (as an embedding tool does at start-up), other matchers are
    constructed and used in between, and only then each prepared matcher is used -- with the same outcome as a matcher constructed for the document."""
    import sessions as S
    from gherkin.parser import Parser
    from gherkin.ast_builder import AstBuilder
    from gherkin.token_matcher import TokenMatcher
    from gherkin.stream.id_generator import IdGenerator
    srcs = [(n, s, d) for n, s, d in sources if not known_finding_input(s)]
    fresh = [S.outcome(lambda: Parser(AstBuilder(IdGenerator())).parse(s, TokenMatcher(d)))[0] for n, s, d in srcs]
    prepared = {}
    for n, s, d in srcs:
        if d not in prepared:
            prepared[d] = TokenMatcher(d)
    Parser().parse("Feature: in between\n  Scenario: s\n    Given x\n")            # the parser's own matcher
    TokenMatcher("en"), TokenMatcher("fr")                                             # and two that are never used
    for (n, s, d), want in zip(srcs, fresh):
        got, _ = S.outcome(lambda: Parser(AstBuilder(IdGenerator())).parse(s, prepared[d]))
        rep.case((label, n))
        if got != want:
            rep.violation({"kind": "prepared-matcher"}, {"engine": "reuse", "what": "a matcher constructed earlier (others were constructed and used since) gives a different result than one constructed for "
                                                         "the document", "source": s, "dialect": d, "fresh": str(want)[:400], "prepared": str(got)[:400]})
            break
    rep.traces += len(srcs)
