"""Compiler.compile on ASTs that need not come from the parser (C06-C10 quantify over "documents / ASTs"): parsed ASTs after a JSON / pickle round trip and with
the scenario / rule children of feature and rules in other orders, validated by Trace_Compile.tla against the operational and the declarative compiler."""
from __future__ import annotations
import copy, json, pickle as _pickle
from common import Scratch, run_tlc, write_dialects, MachineryError, CORES, cp, import_gherkin
import project as P

import_gherkin()
from gherkin.parser import Parser  # noqa: E402
from gherkin.token_matcher import TokenMatcher  # noqa: E402
from gherkin.pickles.compiler import Compiler  # noqa: E402
from gherkin.stream.id_generator import IdGenerator  # noqa: E402


def _reorder(children, how):
    bg = [c for c in children if "background" in c]
    rules = [c for c in children if "rule" in c]
    scen = [c for c in children if "scenario" in c]
    if how == "rules-first":
        return bg + rules + scen
    if how == "reversed":
        return bg + [c for c in children if "background" not in c][::-1]
    if how == "interleaved":
        out, r, s = [], rules[:], scen[::-1]
        while r or s:
            if r:
                out.append(r.pop(0))
            if s:
                out.append(s.pop(0))
        return bg + out
    return children


def variants(doc):
    """-> [(label, AST dict)]"""
    out = [("as-parsed", doc), ("json-round-trip", json.loads(json.dumps(doc))), ("pickle-round-trip", _pickle.loads(_pickle.dumps(doc)))]
    f = doc.get("feature")
    if f:
        for how in ("rules-first", "reversed", "interleaved"):
            d = copy.deepcopy(doc)
            d["feature"]["children"] = _reorder(d["feature"]["children"], how)
            for c in d["feature"]["children"]:
                if "rule" in c:
                    c["rule"]["children"] = _reorder(c["rule"]["children"], "reversed")
            if d != doc:
                out.append((how, json.loads(json.dumps(d)) if how == "interleaved" else d))
    return out


def _max_id(v):
    m = -1
    if isinstance(v, dict):
        if "id" in v:
            m = int(v["id"])
        for x in v.values():
            m = max(m, _max_id(x))
    elif isinstance(v, list):
        for x in v:
            m = max(m, _max_id(x))
    return m


def record(sources, known_finding_input):
    items = []
    for name, s, dialect in sources:
        if known_finding_input(s) or s.count("\n") > 400:
            continue
        try:
            doc = Parser().parse(s, TokenMatcher(dialect))
        except Exception:  # noqa: BLE001
            continue
        for label, ast in variants(doc):
            nid = _max_id(ast) + 1
            g = IdGenerator()
            g._id_counter = nid
            ast = dict(ast, uri="v.feature")
            try:
                pk = [P.pickle(p) for p in Compiler(g).compile(ast)]
                exc = ""
            except Exception as x:  # noqa: BLE001
                pk, exc = [], type(x).__name__ + ": " + str(x)[:200]
            items.append(dict(name=f"{name}|{label}", ast=P.document({k: v for k, v in ast.items() if k != "uri"}), uri=cp("v.feature"), nid=nid, nid_after=g._id_counter, pickles=pk, exc=exc,
                              source=s, variant=label))
    return items


def validate(items, timeout=3000):
    with Scratch("tcompile") as sc:
        write_dialects(sc, ["en"])
        sc.write_json("asts.json", [{k: v for k, v in it.items() if k not in ("exc", "source", "variant")} for it in items])
        res = run_tlc(sc, "Trace_Compile", workers=min(CORES, max(1, len(items))), timeout=timeout)
    if "Parsing or semantic analysis failed" in res.out or not res.finished or res.errors:
        raise MachineryError("Trace_Compile did not complete:\n" + "\n".join(res.out.splitlines()[-40:]))
    v = {m["tid"]: m for m in res.tuples("CDONE")}
    if len(v) != len(items):
        raise MachineryError(f"Trace_Compile reported {len(v)} of {len(items)} executions")
    return v, res


if __name__ == "__main__":
    import sys, time, engines as E
    t0 = time.time()
    items = record(E.src_corpus() + E.src_limits() + E.src_generated(40, 3), E.known_finding_input)
    print("recorded", len(items), round(time.time() - t0, 1))
    v, res = validate(items)
    bad = [(items[t - 1]["name"], {k: x for k, x in m.items() if x is False}) for t, m in v.items() if not all(m[k] for k in ("operational", "counter", "c06", "c07", "c08", "c09", "c10")) or items[t - 1]["exc"]]
    print("validated", len(v), "bad", len(bad), round(time.time() - t0, 1), bad[:5])
