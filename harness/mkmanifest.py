"""Regenerates /verif/MANIFEST.json from the table below (one entry per claimed property)."""
import json, os
V = os.path.dirname(os.path.dirname(os.path.abspath(__file__)))
props = [json.loads(l)["id"] for l in open(os.path.join(V, "properties.jsonl"))]

TB = ("Trusted base: TLC 1.8 + CommunityModules Json; the harness's projection of dictionaries onto spec records (harness/project.py); "
      "CPython running /repo/python. TLC results hold within the stated bounds; conformance is exhaustive over the enumerated abstract "
      "behaviours and sampled over concrete text.")

CLAIMS = {
 "C01": ("model_checking", "MC_Menu: Inv_C01 (outcome is a document or 1..11 typed, located errors) on every document over the base menu; every "
         "enumerated behaviour replayed through the real parser/compiler in both error modes must produce exactly the predicted outcome class (any "
         "foreign exception is the violation); corpus + generated + noisy traces validated against Trace_Pipeline with the outcome predicates "
         "evaluated on the implementation's result.", "TLC model checking + spec->code replay + code->spec trace validation"),
 "C03": ("model_checking", "Props.tla P_C03_* (once / order / text / description / within) model-checked on the specification for every "
         "document over the base menu, evaluated on the implementation's recorded AST for every trace, and the whole AST compared with the "
         "specification's AST (menu replay and trace validation).", "TLC model checking + spec->code replay + code->spec trace validation"),
 "C04": ("model_checking", "P_C04_ReadBack / P_C04_ErrLoc (slicing the source at each reported location gives back keyword, tag, raw cell) "
         "model-checked on the specification over the menu, evaluated on the implementation's recorded AST and errors for every trace "
         "(accepted and rejected), plus literal comparison of every location with the specification's.",
         "TLC model checking + spec->code replay + code->spec trace validation"),
 "C14": ("model_checking", "Error model of Gherkin.tla (expected lists derived from the grammar table, stay-in-position, dedupe, limit 11, "
         "stop mode = limit 1) enumerated over a menu of faulty lines in both modes and replayed; error lists of corpus/generated/noisy traces "
         "compared as (line, column, kind, ordered expected list, quoted text).", "TLC model checking + spec->code replay + code->spec trace validation"),
 "C18": ("model_checking", "P_C18_Accepted / P_C18_Partition model-checked over a look-ahead-heavy menu (tag/comment/blank runs before "
         "Examples/Scenario/Rule); delivered tokens of every trace compared one by one (line, type, fields) with the specification's.",
         "TLC model checking + spec->code replay + code->spec trace validation"),
}

checks = []
for p in props:
    if p in CLAIMS:
        cat, text, tech = CLAIMS[p]
        checks.append({
            "property_id": p,
            "quick_cmd": f"./check {p} --tier quick",
            "thorough_cmd": f"./check {p} --tier thorough",
            "evidence_file": f"/verif/evidence/{p}.json",
            "replay_cmd_template": f"./check {p} --replay {{path}}",
            "engine": "tlc+harness",
            "level_claimed": {"category": cat, "text": text, "design_ref": f"DESIGN.md section 4 ({p})"},
            "level_note": TB,
            "technique": tech,
        })
m = {
    "version": 1,
    "setup_cmd": "true",
    "hooks": {"guard": "GHERKIN_VERIF", "enable": "no source hooks: every spec action has an overridable method; checks observe through subclasses in /verif/harness (record.py)",
              "baseline_off_cmd": "cd /repo && /venv/bin/python -m pytest -ra -q -p no:cacheprovider --timeout=900 --continue-on-collection-errors",
              "source_commits": [], "add_only": True},
    "engines": [{"name": "tlc+harness", "path": "/verif/check", "serves_properties": sorted(CLAIMS),
                 "kind_free_text": "explicit TLA+ specification (spec/*.tla) model-checked with TLC and bound to /repo/python by trace validation and behaviour replay"}],
    "checks": checks,
    "not_applicable": [{"property_id": p, "reason": "check under construction in this session (see DESIGN.md section 4)"} for p in props if p not in CLAIMS],
    "notes": "fix: commits in /repo (genuine defects found by these checks) are listed in known_findings.json",
}
json.dump(m, open(os.path.join(V, "MANIFEST.json"), "w"), indent=1)
print("claimed", sorted(CLAIMS))
