"""Regenerates /verif/MANIFEST.json from the table below (one entry per claimed property)."""
import json, os
V = os.path.dirname(os.path.dirname(os.path.abspath(__file__)))
props = [json.loads(l)["id"] for l in open(os.path.join(V, "properties.jsonl"))]

TB = ("Trusted base: TLC 1.8 + CommunityModules Json; the harness's projection of dictionaries onto spec records (harness/project.py); "
      "CPython running /repo/python. TLC results hold within the stated bounds; conformance is exhaustive over the enumerated abstract "
      "behaviours and sampled over concrete text.")

CLAIMS = {
 "C01": ("model_checking", "MC_Menu: Inv_C01 (outcome is a document or 1..11 typed, located errors) on every document over the base menu; every "
         "enumerated behaviour replayed through the real parser/compiler in both error modes must produce exactly the predicted outcome class (any "
         "foreign exception is the violation); corpus + generated + noisy traces validated against Trace_Pipeline with the outcome predicates "
         "evaluated on the implementation's result; Scanner.tla / MC_Scanner: every small argument against a small file system replayed on the real TokenScanner (the recorded "
         "path finding as the named difference of StreamImplemented and StreamDocumented); the source handed over in every way the API allows; tag lines incl. the recorded "
         "tag finding class and the stream (also with stop_at_first_error) never raise a foreign exception.", "TLC model checking + spec->code replay + code->spec trace validation"),
 "C03": ("model_checking", "Props.tla P_C03_* (once / order / text / description / within) model-checked on the specification for every "
         "document over the base menu, evaluated on the implementation's recorded AST for every trace, and the whole AST compared with the "
         "specification's AST (menu replay and trace validation).", "TLC model checking + spec->code replay + code->spec trace validation"),
 "C04": ("model_checking", "P_C04_ReadBack / P_C04_ErrLoc (slicing the source at each reported location gives back keyword, tag, raw cell) "
         "model-checked on the specification over the menu, evaluated on the implementation's recorded AST and errors for every trace "
         "(accepted and rejected), plus literal comparison of every location with the specification's.",
         "TLC model checking + spec->code replay + code->spec trace validation"),
 "C14": ("model_checking", "Error model of Gherkin.tla (expected lists derived from the grammar table, stay-in-position, dedupe, limit 11, "
         "stop mode = limit 1): every (position, unexpected kind) pair driven through Parser.match_token; menus of faulty lines in both modes and 2^12 error-limit "
         "runs enumerated and replayed; error lists of corpus/generated/noisy/limit/look-ahead traces compared as (line, column, kind, ordered expected list, quoted "
         "text) in both modes; re-used parser/matcher pass.", "TLC model checking + spec->code replay + code->spec trace validation"),
 "C18": ("model_checking", "P_C18_Accepted / P_C18_Partition model-checked over a look-ahead-heavy menu (tag/comment/blank runs before "
         "Examples/Scenario/Rule); the small-step parser (ParserL0: queue discipline Inv_Fifo, Inv_Partition and the step properties Prop_AppendOnly, "
         "Prop_ScannerForward, Prop_LookAheadPure, Prop_Requeue, Prop_ErrorStays on every transition) with every enumerated kind sequence replayed through Parser.parse; delivered tokens of every trace compared one by one (line, type, fields) with the specification's.",
         "TLC model checking + spec->code replay + code->spec trace validation"),

 "C02": ("model_checking", "Parser table DERIVED in TLA+ from gherkin.berp (transcription checked against the file) with structural ASSUMEs (determinism, stack discipline); "
         "functional bisimulation of the derived table with the Java/Go/Ruby/C/TypeScript generated parsers read as text (order, hints, productions, expected lists) and with "
         "the Python parser's machine LEARNED through Parser.match_token (every (position, kind, look-ahead oracle): productions, targets, error behaviour; 334/334 transitions); "
         "MC_Language decides accept/first-fault equivalence of table and grammar NFA exactly (finite product, all lengths); MC_Layering ties the kind level to real text; all "
         "kind sequences <= N through the real Parser.parse; derivation predicate on the builder events of real documents.",
         "TLC model checking + static bisimulation of 6 generated programs + behaviour replay + trace validation"),
 "C05": ("model_checking", "Complete: MC_Keywords checks completeness/soundness/keyword types for every listed keyword of every dialect matched in every dialect (139,920 cases) "
         "on the spec's matcher with the master table; every keyword instance as a real document (default dialect and via header) validated against the spec incl. the printed "
         "token listing; header spellings from the pattern; foreign keywords; shipped table byte-identical to the master table.",
         "TLC model checking (complete enumeration) + code->spec trace validation"),
 "C06": ("model_checking", "MC_Grow enumerates every ACCEPTED document over a structural menu up to N lines and after deep prefixes; P_C06 (declarative Units(doc) vs "
         "operational compiler) checked on the spec; every document replayed through the real parser+compiler and compared pickle by pickle; corpus/generated traces (also with the id counter at 95 when the document starts); Trace_Compile.tla: the real compiler "
         "ALONE on parsed, JSON/pickle round-tripped and re-ordered ASTs against the operational compiler and the declarative predicates; one compiler / parser re-used 2 500 times.",
         "TLC model checking + spec->code replay + trace validation"),
 "C07": ("model_checking", "As C06 with P_C07 (feature background, rule background, own steps; none for step-less scenarios; arguments carried); deep prefix with two rules "
         "each having a background exposes leakage between rules.", "TLC model checking + spec->code replay + trace validation"),
 "C08": ("model_checking", "As C06 with P_C08 (feature, rule, scenario, examples tags in order, duplicates kept, tag ids); menu line with a repeated tag; prefix with tags at "
         "all four levels.", "TLC model checking + spec->code replay + trace validation"),
 "C09": ("model_checking", "MC_Interpolate: operational substitution = declarative one, unchanged-without-placeholder, literal insertion, sequential columns over all templates "
         "<= L x adversarial header/value pairs; every triple replayed through Compiler.compile on AST dictionaries (name, step text, cell, doc string content, media type; "
         "background untouched), a sample as real text through the parser; three alphabets (regex metacharacters; line feed and combining marks; U+001F / NUL); "
         "Trace_Compile on parsed, round-tripped and re-ordered ASTs.", "TLC model checking + spec->code replay + trace validation"),
 "C10": ("model_checking", "MC_Types: all keyword-type sequences (background 0..2 x scenario 0..4/5 steps), plain and outline: definite, from keyword, inherited across the "
         "boundary, plain = outline; replayed on AST dictionaries and text; every listed step keyword of every dialect for the keyword->type map; matchers re-used after unknown dialects, several matchers alive at once, the Markdown "
         "matcher used first; Trace_Compile on round-tripped ASTs (strings no longer interned).",
         "TLC model checking (complete up to the length bound) + replay + trace validation"),
 "C11": ("model_checking", "P_C11_Canonical (ids = nid0.. in canonical post-order incl. pickles) and P_C11_Refs on every accepted document over the structural menu; MC_Stream: "
         "uniqueness across documents of one stream incl. rejected ones, monotone counter (action property), density; recorded streams (one of 300+ sources) and traces; "
         "MC_Cli Inv_OneStream on real command lines; id generators of the user's own (subclass, duck-typed, re-bound, non-numeral ids) as the one origin of all ids.",
         "TLC model checking + spec->code replay + trace validation"),
 "C12": ("model_checking", "MC_Cells: the splitter as a character-level machine = recursive operational definition = declarative definition, round trip, read-back, on every "
         "row over the 5 character classes up to the length bound (two instantiations of the classes); every row replayed on GherkinLine.table_cells and inside data / "
         "examples tables; ragged tables over a table menu; traces.", "TLC model checking + spec->code replay + trace validation"),
 "C13": ("model_checking", "P_C13_DocStrings (content rule, media type, opacity, closing by own delimiter) on every doc string body <= N lines drawn from every kind of "
         "Gherkin-looking line, in scenario/background/outline steps (MC_Grow), unclosed/rejected ones via MC_Menu; replay and traces.",
         "TLC model checking + spec->code replay + trace validation"),
 "C17": ("model_checking", "Stream.tla/Messages.tla: MC_Stream checks order/options/uri/rejected-only-errors on every sequence of pool sources x 8 option sets and replays "
         "each through GherkinEvents.enum; recorded streams (corpus, generated, noisy) validated by Trace_Stream with every raw envelope reduced to a shape that must fit the "
         "transcribed Cucumber Messages schema (itself validated on the corpus reference ndjson); the print options as STATE of the stream (SetOptions between sources); Cli.tla / MC_Cli: every command line over the three flags and four files run as a real "
         "process; CLI in a C-locale process; CLI JSON round trip.",
         "TLC model checking + spec->code replay + trace validation of recorded streams"),

 "C15": ("model_checking", "Sessions.tla: instances with persistent matcher state, Begin/Token/End actions; TLC enumerates every history (<= 2/3 documents from a pool of 12 "
         "state-perturbing documents, two default dialects, shared id generator) and every interleaving of two (thorough: three) concurrent parses at loop-iteration "
         "granularity, checking Inv_Fresh / Inv_Solo / Inv_Independent; each history replayed on ONE real Parser/TokenMatcher/Compiler (state after reset observed), each "
         "schedule enforced on real parsers in gated threads; determinism (hash seeds, C locale, other working directory, -O) and compile purity on real documents; 2 500 uses of one object set; several matchers "
         "alive at once; the module-level dialect table intact.",
         "TLC model checking of histories and schedules + replay on re-used / concurrently running real objects"),
 "C16": ("model_checking", "Layout.tla: ApplyT / Admissible / Adjust for six transformations; MC_Layout checks Result(T(doc)) = Adjust(Result(doc)) for every document <= N over a "
         "menu x every admissible application and replays each; Trace_Layout evaluates the same relation with TLC on the implementation's recorded results for corpus, "
         "generated and noisy documents (the harness's text transformation is itself checked against ApplyT); file versus string through real files (also in a C-locale process), and exactly: Scanner.tla Inv_FileIsCrLfString replayed on the real TokenScanner.",
         "TLC model checking + spec->code replay + relation checked by TLC on recorded implementation results"),
 "C19": ("model_checking", "Markdown.tla: header / bullet / table-row / back-tick tag matching; complete enumeration 80 dialects x listed keywords x depth 0..7 / bullet x "
         "separator x indentation (143k lines) and rows/tag lines over small alphabets; clause-by-clause invariants on the spec; every case replayed on the real "
         "GherkinInMarkdownTokenMatcher.match_* methods (negative cases: no keyword method matches).",
         "TLC model checking (complete enumeration) + spec->code replay"),
}

checks = []
for p in props:
    if p in CLAIMS:
        cat, text, tech = CLAIMS[p]
        checks.append({
            "property_id": p,
            "quick_cmd": f"./check {p} --tier quick",
            "thorough_cmd": f"./check {p} --tier thorough",
            "evidence_file": f"/verif/evidence/{p}.json",
            "replay_cmd_template": f"./check {p} --replay {{path}}",
            "engine": "tlc+harness",
            "level_claimed": {"category": cat, "text": text, "design_ref": f"DESIGN.md section 4 ({p})"},
            "level_note": TB,
            "technique": tech,
        })
m = {
    "version": 1,
    "setup_cmd": "true",
    "hooks": {"guard": "GHERKIN_VERIF", "enable": "no source hooks: every spec action has an overridable method; checks observe through subclasses in /verif/harness (record.py)",
              "baseline_off_cmd": "cd /repo && /venv/bin/python -m pytest -ra -q -p no:cacheprovider --timeout=900 --continue-on-collection-errors",
              "source_commits": [], "add_only": True},
    "engines": [{"name": "tlc+harness", "path": "/verif/check", "serves_properties": sorted(CLAIMS),
                 "kind_free_text": "explicit TLA+ specification (spec/*.tla) model-checked with TLC and bound to /repo/python by trace validation and behaviour replay"}],
    "checks": checks,
    "not_applicable": [{"property_id": p, "reason": "check under construction in this session (see DESIGN.md section 4)"} for p in props if p not in CLAIMS],
    "notes": "fix: commits in /repo (genuine defects found by these checks) are listed in known_findings.json",
}
json.dump(m, open(os.path.join(V, "MANIFEST.json"), "w"), indent=1)
print("claimed", sorted(CLAIMS))
