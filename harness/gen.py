"""Grammar-aware random document generator (well-formed by construction, hostile in its text) and noisy mutations.

Deterministic in the seed.  Text is drawn from a pool that contains every kind of Gherkin-looking fragment, regular
expression metacharacters, escapes, tabs, exotic blanks, non-BMP characters and combining marks, so that free-text
positions (names, descriptions, doc strings, cells) are exercised with lines that LOOK like other line kinds.
"""
from __future__ import annotations
import random
from common import master_dialects

WORDS = ["alpha", "β-eta", "ga mma", "😀x", "d:e", "#h", "@at", "|p", "\\b", "<v>", "Given", "Scenario:", '"""', "```", "* ",
         "And then", "Feature: x", "Examples:", "Rule: r", "Background:", "# language: fr", "a\tb", "(a|b)+", "$1", "\\1", "[x]",
         "e\u0301", "\u00a0nb", "x\u2003y", "𝔘", "<h1>", "<>", "<<h1>>", "\\n", "%s", "{0}", "\u200b", "ü", "日本語", "\x0b", "\r"]
SAFE_WORDS = [w for w in WORDS if w not in ("\r",)]
# examples header names: ordinary ones and ones hostile to pattern-based substitution
HDRS = ["h1", "h2", "h3", "\\nkey", "key\\n", "", "e\u0301", "a(b", "a.b", "$x", "\\\\", "<h1>", "[x]", "+", "*", "a\\|b", "(?i)", "{2}", "^", "h1)", "é", "😀", "x y"]


class Gen:
    def __init__(self, seed: int, dialect: str = "en", crlf_safe: bool = True, langs: dict | None = None):
        self.r = random.Random(seed)
        self.dialect = dialect
        self.d = (langs or master_dialects())[dialect]
        self.words = SAFE_WORDS if crlf_safe else WORDS
        self.out: list[str] = []

    # ---- atoms
    def txt(self, n=3):
        return " ".join(self.r.choice(self.words) for _ in range(self.r.randint(1, n)))

    def ind(self):
        return self.r.choice(["", " ", "  ", "    ", "\t", " \t", "      ", "\u3000", " \u00a0", "\u2003 "] if self.r.random() < 0.15 else ["", " ", "  ", "    ", "\t", " \t", "      "])

    def pad(self):
        return self.r.choice(["", " ", "  ", "\t"])

    def kw(self, role):
        return self.r.choice(self.d[role])

    def noise(self):
        if self.r.random() < 0.01:        # a long run of skip lines (look-ahead over many lines)
            for _ in range(self.r.randint(33, 70)):
                self.out.append(self.r.choice(["", "  # c", "\t"]))
        while self.r.random() < 0.2:
            self.out.append(self.r.choice(["", "  ", "#c" + self.txt(), "  # c", "\t"]))

    def tags(self):
        for _ in range(self.r.randint(0, 2)):
            self.out.append(self.ind() + self.r.choice([" ", "  ", ""]).join(
                "@" + self.r.choice(["t1", "t2", "😀", "a#b", "x-y", "t1", "@", "é"] + (["a\u00a0b", "c\u3000d", "e\u2003"] if self.r.random() < 0.03 else []) + (["i<h1>", "<h2>"] if self.r.random() < 0.1 else [])) for _ in range(self.r.randint(1, 3)))
                + self.r.choice(["", " #c", "  ", " # @not"]))
            self.noise()

    def desc(self):
        while self.r.random() < 0.3:
            self.out.append(self.r.choice(["", "", "  "]))
        if self.r.random() < 0.4:
            for _ in range(self.r.randint(1, 3)):
                self.out.append(self.ind() + self.r.choice(
                    [self.txt(), "#cm", "", "   ", self.kw("given") + "x", "| a |", "@tag", self.kw("examples") + ": no", "\\\"\\\"\\\"",
                     "text  ", "\t"]))

    def cell(self):
        return self.r.choice(["a", "b ", "", "  ", "\\|", "\\\\", "\\n", "x\\ny", "é😀", "<h1>", "\\", "a\\", "\\x", "c\\|d", " \\n", "\\n ",
                              "a \\n", "\u00a0", "x\u3000", "\\\\n", "<h2>", "𝔘𝔘", "\t", "\u200bz\u200b", "\ufeffy", "\u2060", "e\u0301x", "\u0e01\u0e33", "a\u030a\u0323"])

    def table(self, ncols=None, nrows=None):
        ncols = ncols or self.r.randint(1, 3)
        i = self.ind() + "  "
        for _ in range(nrows if nrows is not None else self.r.randint(1, 3)):
            self.out.append(i + self.r.choice(["", "", "x"]) + "|" + "|".join(self.pad() + self.cell() + self.pad() for _ in range(ncols)) + "|"
                            + self.r.choice(["", " ", "junk"]))
            self.noise()

    def docstring(self):
        d = self.r.choice(['"""', "```"])
        i = self.ind() + " "
        self.out.append(i + d + self.r.choice(["", " ", "json", "  x y ", "<h1>"]))
        for _ in range(self.r.randint(0, 4)):
            self.out.append(self.r.choice([i, i + "  ", "", self.ind()]) + self.r.choice(
                [self.txt(), "", self.kw("given") + "x", "@t", "#c", "| a |", '"""' if d != '"""' else "```", self.kw("scenario") + ": s",
                 "\\\"\\\"\\\"", "\\`\\`\\`", "   ", "<h1> and <h2>", "# language: no", "\\\"\"\" x \"\\\"\"", "a \\\"\\\"\" b \\`\\``", "less  \t"]))
        self.out.append(i + d + self.r.choice(["", " ", "  junk"]))

    def step(self):
        role = self.r.choice(["given", "when", "then", "and", "but"])
        self.out.append(self.ind() + self.kw(role) + self.r.choice([self.txt(), "<h1> and <h2>", "x", "", "<%s> <%s>" % (self.r.choice(HDRS), self.r.choice(HDRS))]) + self.pad())
        self.noise()
        c = self.r.random()
        if c < 0.25:
            self.table()
        elif c < 0.45:
            self.docstring()

    def examples(self):
        self.tags()
        self.out.append(self.ind() + self.kw("examples") + ":" + self.r.choice(["", " e", " <h1>"]))
        self.desc()
        if self.r.random() < 0.85:
            n = self.r.randint(1, 3)
            i = self.ind()
            hs = ["h%d" % (k + 1) for k in range(n)] if self.r.random() < 0.6 else [self.r.choice(HDRS) for _ in range(n)]     # (repeated names allowed)
            self.out.append(i + "|" + "|".join(" %s " % h for h in hs) + "|")
            self.noise()
            for _ in range(self.r.randint(0, 3)):
                self.out.append(i + "|" + "|".join(self.pad() + self.cell() + self.pad() for _ in range(n)) + "|")
                self.noise()

    def scenario(self):
        self.tags()
        self.out.append(self.ind() + self.kw(self.r.choice(["scenario", "scenarioOutline"])) + ":" + self.r.choice(["", " " + self.txt(), " <h1>-<h2>"]) + self.pad())
        self.desc()
        for _ in range(self.r.randint(0, 3)):
            self.step()
        for _ in range(self.r.choice([0, 0, 1, 2])):
            self.examples()

    def background(self):
        self.out.append(self.ind() + self.kw("background") + ":" + self.r.choice(["", " b"]))
        self.desc()
        for _ in range(self.r.randint(0, 2)):
            self.step()

    def rule(self):
        self.tags()
        self.out.append(self.ind() + self.kw("rule") + ":" + self.r.choice(["", " " + self.txt()]))
        self.desc()
        if self.r.random() < 0.5:
            self.background()
        for _ in range(self.r.randint(0, 2)):
            self.scenario()

    def feature(self, header: bool):
        self.noise()
        if header:
            n = self.dialect
            self.out.append(self.r.choice(["# language: %s", "#language:%s", "  #  language :  %s  ", "#\tlanguage\t:\t%s"]) % n)
            self.noise()
        self.tags()
        self.out.append(self.ind() + self.kw("feature") + ":" + self.r.choice(["", " " + self.txt()]))
        self.desc()
        if self.r.random() < 0.5:
            self.background()
        for _ in range(self.r.randint(0, 3)):
            self.scenario()
        for _ in range(self.r.choice([0, 0, 1, 2])):
            self.rule()


def doc(seed: int, dialect: str = "en", header: bool | None = None, langs=None) -> str:
    """A well-formed document (modulo the deliberate hostile text).  header: emit a language header (forced for non-default)."""
    g = Gen(seed, dialect, langs=langs)
    if header is None:
        header = g.r.random() < 0.2
    g.feature(header)
    return "\n".join(g.out) + g.r.choice(["", "\n"])


def noisy(seed: int, text: str) -> str:
    """Line-level damage: delete / duplicate / swap / insert junk / truncate."""
    r = random.Random(seed)
    lines = text.split("\n")
    for _ in range(r.randint(1, 4)):
        if not lines:
            break
        k = r.randrange(len(lines))
        c = r.random()
        if c < 0.25:
            del lines[k]
        elif c < 0.45:
            lines.insert(k, lines[k])
        elif c < 0.6 and len(lines) > 1:
            j = r.randrange(len(lines))
            lines[k], lines[j] = lines[j], lines[k]
        elif c < 0.85:
            lines.insert(k, r.choice(["@bad tag", "# language: xx-unknown", "| a | b | c |", "junk", '"""', "Examples:", "Rule: x", "Scenario: y",
                                      "Background:", "Feature: again", "  Given z", "```", "@t", "", "#c", "| x |", "junk  ", "Examples:\t ", "  Rule: z  "]))
        else:
            lines = lines[:k]
    return "\n".join(lines)


if __name__ == "__main__":
    import sys
    print(doc(int(sys.argv[1]) if len(sys.argv) > 1 else 3, sys.argv[2] if len(sys.argv) > 2 else "en"))
