#!/venv/bin/python
"""Non-vacuity of the small-step parser's properties: each named mutation of spec/ParserL0.tla (a plausible wrong design, applied to a scratch
copy) must be rejected by TLC, and the table says by which invariant / action property.  Mutations that leave the state graph of this grammar
unchanged are reported as EQUIVALENT (they cannot be told apart by any property).  Not a registered check; run by hand:
    /venv/bin/python harness/specmut.py            (writes spec/ParserL0.mutations.md)"""
import os, sys
from concurrent.futures import ThreadPoolExecutor
sys.path.insert(0, os.path.dirname(os.path.abspath(__file__)))
from common import Scratch, run_tlc, SPEC
import l0 as L

INVS = ["Inv_StackIsPath", "Inv_Fifo", "Inv_Partition", "Inv_Accepted", "Inv_Linear"]
CFG = ("SPECIFICATION Spec\nCONSTANT MaxLines = 4\nCONSTANT Alphabet <- LaAlphabet\nCONSTANT Prefix <- ScenarioPrefix\nCONSTANT MaxErrs = 2\n"
       "CONSTRAINT Quiet\nVIEW View\nCHECK_DEADLOCK FALSE\n" + "".join(f"INVARIANT {i}\n" for i in INVS) + "".join(f"PROPERTY {a}\n" for a in L.ACTION_PROPERTIES))

MUTATIONS = [
    ("Fire also delivers the first look-ahead line (a peeked line reaches the builder twice)",
     "           /\\ vDelivered' = Append(vDelivered, vTok)\n",
     "           /\\ vDelivered' = IF vLa.read # <<>> THEN vDelivered \\o <<vTok, vLa.read[1]>> ELSE Append(vDelivered, vTok)\n"),
    ("look-ahead lines are not put back (dropped after peeking)",
     "   /\\ vQueue' = vQueue \\o vLa.read\n", "   /\\ vQueue' = vQueue\n"),
    ("look-ahead lines are put back in reverse order",
     "   /\\ vQueue' = vQueue \\o vLa.read\n",
     "   /\\ vQueue' = vQueue \\o [j \\in 1..Len(vLa.read) |-> vLa.read[Len(vLa.read) + 1 - j]]\n"),
    ("look-ahead lines are put back at the FRONT of the queue",
     "   /\\ vQueue' = vQueue \\o vLa.read\n", "   /\\ vQueue' = vLa.read \\o vQueue\n"),
    ("an error drops the queued lines",
     "   /\\ vTry' = 0\n   /\\ UNCHANGED <<vInput, vNext, vQueue, vTok, vLa, vSt, vStack, vDelivered, vOps>>",
     "   /\\ vTry' = 0 /\\ vQueue' = <<>>\n   /\\ UNCHANGED <<vInput, vNext, vTok, vLa, vSt, vStack, vDelivered, vOps>>"),
    ("an error ends the innermost open rule (recovery by popping)",
     "   /\\ vTry' = 0\n   /\\ UNCHANGED <<vInput, vNext, vQueue, vTok, vLa, vSt, vStack, vDelivered, vOps>>",
     "   /\\ vTry' = 0 /\\ vStack' = (IF Len(vStack) > 1 THEN SubSeq(vStack, 1, Len(vStack) - 1) ELSE vStack)\n   /\\ UNCHANGED <<vInput, vNext, vQueue, vTok, vLa, vSt, vDelivered, vOps>>"),
    ("an unexpected line is skipped silently (neither delivered nor reported)",
     "   /\\ vErrs' = vErrs + 1 /\\ vReported' = Append(vReported, vTok)\n", "   /\\ vErrs' = vErrs + 1 /\\ vReported' = vReported\n"),
    ("read_token ignores the queue (reads the scanner while lines are queued)",
     "             /\\ IF vQueue # <<>> THEN vTok' = Head(vQueue) /\\ vQueue' = Tail(vQueue) /\\ UNCHANGED vNext\n",
     "             /\\ IF FALSE THEN vTok' = Head(vQueue) /\\ vQueue' = Tail(vQueue) /\\ UNCHANGED vNext\n"),
    ("the look-ahead reads the scanner directly instead of going through the queue",
     "      /\\ IF vQueue # <<>> THEN vQueue' = Tail(vQueue) /\\ UNCHANGED vNext ELSE vNext' = vNext + 1 /\\ UNCHANGED vQueue\n",
     "      /\\ vNext' = vNext + 1 /\\ UNCHANGED vQueue\n"),
    ("the parse goes on after the end-of-file token",
     "           /\\ vPc' = IF vInput[vTok] = \"#EOF\" THEN \"done\" ELSE \"read\"\n           /\\ vTry' = 0 /\\ vLa' = NoLa\n",
     "           /\\ vPc' = \"read\"\n           /\\ vTry' = 0 /\\ vLa' = NoLa\n"),
    ("a failed look-ahead restarts the position's transition list instead of going on to the next alternative",
     "      ELSE vPc' = \"try\" /\\ vTry' = vTry + 1 /\\ vLa' = NoLa",
     "      ELSE vPc' = \"try\" /\\ vTry' = 1 /\\ vLa' = NoLa"),
]


def one(k):
    what, old, new = MUTATIONS[k]
    src = open(os.path.join(SPEC, "ParserL0.tla")).read()
    if src.count(old) != 1:
        return what, "ANCHOR NOT FOUND", 0
    with Scratch(f"mut{k}") as sc:
        sc.write("ParserL0.tla", src.replace(old, new))
        sc.write("mut.cfg", CFG)
        try:
            res = run_tlc(sc, "MC_L0", cfg="mut.cfg", workers=4, timeout=600, extra=["-continue"])
        except Exception as ex:  # a mutation may make the parse loop for ever: that is a rejection too (no "done")
            return what, "TLC did not finish (non-terminating design): " + str(ex)[:80], 0
    hit = sorted(set(res.invariant_violations))
    other = [e for e in res.errors if "violated" not in e][:1]
    return what, (", ".join(hit) if hit else ("error: " + other[0][:160] if other else "EQUIVALENT@")), res.distinct


def main():
    with Scratch("mutbase") as sc:
        sc.write("mut.cfg", CFG)
        base = run_tlc(sc, "MC_L0", cfg="mut.cfg", workers=4, timeout=600, extra=["-continue"])
    assert base.finished and not base.errors, base.out[-2000:]
    with ThreadPoolExecutor(4) as ex:
        rows = list(ex.map(one, range(len(MUTATIONS))))
    # same state graph => indistinguishable for this grammar; another graph without a safety violation => a progress matter (FairSpec / Termination)
    rows = [(w, ("EQUIVALENT (same state graph)" if n == base.distinct else "no safety property (the parse cycles: PROPERTY Termination of the liveness instance)") if v == "EQUIVALENT@" else v, n)
            for w, v, n in rows]
    out = ["# Mutations of ParserL0.tla and the property that rejects each", "",
           f"Generated by harness/specmut.py. Instance: look-ahead alphabet, 4 lines after Feature/Scenario/Step, <= 2 errors; unmutated: {base.distinct} distinct states, no violation.", "",
           "| mutation (a plausible wrong design) | rejected by | distinct states |", "|---|---|---|"]
    for what, verdict, n in rows:
        out.append(f"| {what} | {verdict} | {n} |")
        print(f"{verdict:60s} {what}")
    open(os.path.join(SPEC, "ParserL0.mutations.md"), "w").write("\n".join(out) + "\n")
    return 0 if all(v not in ("ANCHOR NOT FOUND",) for _, v, _ in rows) else 2


if __name__ == "__main__":
    sys.exit(main())
