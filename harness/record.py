"""code -> spec: run the real pipeline on a source and record what it did, for the trace specifications.

Observation is through subclasses only (no source hooks): every spec action has an overridable method.
"""
from __future__ import annotations
import copy, os
from common import import_gherkin, cp, MachineryError
import project as P

import_gherkin()
from gherkin.parser import Parser  # noqa: E402
from gherkin.ast_builder import AstBuilder  # noqa: E402
from gherkin.token_matcher import TokenMatcher  # noqa: E402
from gherkin.token_scanner import TokenScanner  # noqa: E402
from gherkin.stream.id_generator import IdGenerator  # noqa: E402
from gherkin.errors import ParserError, ParserException, CompositeParserException  # noqa: E402
from gherkin.pickles.compiler import Compiler  # noqa: E402


class RecordingBuilder(AstBuilder):
    """Delivered tokens and the start_rule / end_rule / build calls, grouped per token read."""

    def reset(self):
        super().reset()
        self.toks = []
        self.events = []      # one list per parser loop iteration that delivered a token
        self._cur = []

    def start_rule(self, rule_type):
        self._cur.append(["S", rule_type])
        return super().start_rule(rule_type)

    def end_rule(self, rule_type):
        self._cur.append(["E", rule_type])
        return super().end_rule(rule_type)

    def build(self, token):
        self.toks.append(P.token(token))
        self._cur.append(["B", ""])
        self.events.append(self._cur)
        self._cur = []
        return super().build(token)


class CountingMatcher(TokenMatcher):
    """Counts line-matching operations (C01's linear-work clause)."""

    def __init__(self, *a, **k):
        self.ops = 0
        super().__init__(*a, **k)

    def __getattribute__(self, name):
        if name.startswith("match_"):
            object.__setattr__(self, "ops", object.__getattribute__(self, "ops") + 1)
        return object.__getattribute__(self, name)


def source_is_path(s: str) -> bool:
    try:
        return os.path.exists(s)
    except (ValueError, OSError):
        return False


def token_listing(s: str, dialect: str = "en") -> list[list[int]]:
    """The token listing (one formatted token per delivered token) printed by TokenFormatterBuilder, as code points."""
    from gherkin.token_formatter_builder import TokenFormatterBuilder

    class RecFmt(TokenFormatterBuilder):
        def reset(self):
            super().reset()
            self.lines = []

        def build(self, token):
            self.lines.append(self._format_token(token))
            super().build(token)

    b = RecFmt()
    parser = Parser(b)
    try:
        printed = [parser.parse(s, TokenMatcher(dialect)), b.get_result(), parser.ast_builder.get_result()]
    except ParserError:
        printed = []
    # what parse() returns -- and what the builder answers when asked again -- is the listing of exactly the tokens it received
    extra = [f"<result {k} of the formatter is not the listing of the received tokens>" for k, x in enumerate(printed) if x != "\n".join(b.lines)]
    # a formatter given to the parser after construction receives the same tokens
    b2 = RecFmt()
    later = Parser()
    later.ast_builder = b2
    try:
        later.parse(s, TokenMatcher(dialect))
    except ParserError:
        pass
    if b2.lines != b.lines:
        extra.append("<a builder assigned to parser.ast_builder after construction received other tokens>")
    return [cp(x) for x in b.lines + extra]


def record(name: str, s: str, dialect: str = "en", mode: str = "collect", nid0: int = 0, compile_: bool = True,
           uri: str = "u", listing: bool = False, iff: bool = False) -> dict:
    """One execution of Parser.parse (+ Compiler.compile) on the string source s, as a trace record."""
    idg = IdGenerator()
    idg._id_counter = nid0
    b = RecordingBuilder(idg)
    parser = Parser(b)
    parser.stop_at_first_error = (mode == "stop")
    matcher = CountingMatcher(dialect)
    rec = dict(name=name, mode=mode, dialect=dialect, nid0=nid0, lines=[cp(l) for l in P.split_lines(s)], uri=cp(uri))
    pk = []
    pk_again = None
    exc = None
    try:
        d = parser.parse(s, matcher)
        ok, ast, errs = 1, P.document(d), []
        if compile_:
            before = copy.deepcopy(d)
            d2 = dict(d)
            d2["uri"] = uri
            try:
                comp = Compiler(idg)
                keep = idg._id_counter
                pk = [P.pickle(p) for p in comp.compile(d2)]
                # the same Compiler used again on the same document (ids rewound): the result must not depend on the earlier use
                after = idg._id_counter
                idg._id_counter = keep
                pk_again = [P.pickle(p) for p in comp.compile(d2)]
                idg._id_counter = after
            except Exception as e:  # noqa: BLE001 -- any exception from compile is itself an observation (C01)
                pk = []
                exc = "compile:" + type(e).__name__ + ":" + str(e)[:200]
            d2.pop("uri", None)
            if d2 != before:
                exc = (exc or "") + "|compile-mutated-document"
    except CompositeParserException as e:
        ok, ast = 0, dict(feature=[], comments=[])
        try:
            errs = [P.error(x) for x in e.errors]
        except P.Unprojectable as u:
            errs, exc = [], "errors:" + str(u)
        if mode == "stop":
            exc = (exc or "") + "|composite-in-stop-mode"
    except ParserException as e:
        ok, ast = 0, dict(feature=[], comments=[])
        try:
            errs = [P.error(e)]
        except P.Unprojectable as u:
            errs, exc = [], "errors:" + str(u)
        if mode != "stop":
            exc = (exc or "") + "|single-error-in-collect-mode"
    except Exception as e:  # noqa: BLE001
        ok, ast, errs = 0, dict(feature=[], comments=[]), []
        exc = "parse:" + type(e).__name__ + ":" + str(e)[:200]
    ev = b.events
    if ev and ev[0] and ev[0][0] == ["S", "GherkinDocument"]:
        ev = [ev[0][1:]] + ev[1:]
    rec.update(ok=ok, toks=b.toks, events=ev, ast=ast, errs=errs, pickles=pk, exc=exc or "", compiled=int(bool(compile_)), iff=int(bool(iff)), pickles_again=pk if pk_again is None else pk_again,
               nid_after=idg._id_counter, ops=matcher.ops,
               listing=token_listing(s, dialect) if listing else [])
    return rec
