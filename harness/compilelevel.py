"""C09 / C10 instances enumerated by TLC on the specification and replayed through the real compiler (AST dictionaries and text)."""
from __future__ import annotations
from concurrent.futures import ProcessPoolExecutor
from common import Scratch, run_tlc, MachineryError, CORES, uncp, import_gherkin

import_gherkin()
from gherkin.pickles.compiler import Compiler  # noqa: E402
from gherkin.parser import Parser  # noqa: E402


def _tlc(module, cfg, defs, tag, timeout=3000):
    with Scratch(tag) as sc:
        src = open(sc.path(module + ".tla")).read().replace("=" * 77, defs + "\n" + "=" * 77)
        sc.write(module + ".tla", src)
        sc.write(module + "_run.cfg", cfg)
        res = run_tlc(sc, module, cfg=module + "_run.cfg", timeout=timeout, extra=["-continue"])
    if "Parsing or semantic analysis failed" in res.out or not res.finished or any("Invariant" not in e and "violated" not in e for e in res.errors):
        raise MachineryError(f"{module} did not complete:\n" + "\n".join(res.out.splitlines()[-40:]))
    return res


def tla_seq(s: str) -> str:
    return "<<" + ", ".join(str(ord(c)) for c in s) + ">>"


# ------------------------------------------------------------------------------------------------ C09
def outline_ast(template: str, headers: list[str], values: list[str]):
    loc = {"line": 1, "column": 1}
    step = lambda i, arg: {"id": str(i), "location": loc, "keyword": "Given ", "keywordType": "Context", "text": template, **arg}  # noqa: E731
    row = lambda i, vals: {"id": str(i), "location": loc, "cells": [{"location": loc, "value": v} for v in vals]}  # noqa: E731
    steps = [step(10, {}), step(11, {"dataTable": {"location": loc, "rows": [row(12, [template, "x"])]}}),
             step(13, {"docString": {"location": loc, "content": template, "delimiter": '"""', "mediaType": template}}),
             step(14, {"docString": {"location": loc, "content": "c", "delimiter": '"""'}})]
    bg = {"background": {"id": "1", "location": loc, "keyword": "Background", "name": "", "description": "",
                         "steps": [step(0, {"docString": {"location": loc, "content": template, "delimiter": "```"}})]}}
    sc = {"scenario": {"id": "20", "location": loc, "tags": [], "keyword": "Scenario Outline", "name": template, "description": "", "steps": steps,
                       "examples": [{"id": "19", "location": loc, "tags": [], "keyword": "Examples", "name": "", "description": "",
                                     "tableHeader": row(17, headers), "tableBody": [row(18, values)]}]}}
    return {"uri": "u", "comments": [], "feature": {"location": loc, "tags": [], "language": "en", "keyword": "Feature", "name": "f", "description": "",
                                                    "children": [bg, sc]}}


def _interp_chunk(cases):
    bad = []
    shared = Compiler()
    for c in cases:
        t, hs, vs, r = uncp(c["t"]), [uncp(x) for x in c["h"]], [uncp(x) for x in c["v"]], uncp(c["r"])
        try:
            pk = Compiler().compile(outline_ast(t, hs, vs))
            p = pk[0]
            again = shared.compile(outline_ast(t, hs, vs))      # a Compiler that has seen other tables before must say the same
            strip = lambda ps: [{k: v for k, v in x.items() if k != "id"} | {"steps": [{a: b for a, b in s.items() if a != "id"} for s in x["steps"]]} for x in ps]  # noqa: E731
            if strip(again) != strip(pk):
                bad.append(dict(template=t, headers=hs, values=vs, spec=r, impl="re-used Compiler: " + str(strip(again)[0]["name"]), field="reuse"))
                continue
            got = dict(name=p["name"], bg=p["steps"][0]["text"] if p["steps"][0]["argument"]["docString"]["content"] == t else "background argument changed", text=p["steps"][1]["text"], cell=p["steps"][2]["argument"]["dataTable"]["rows"][0]["cells"][0]["value"],
                       content=p["steps"][3]["argument"]["docString"]["content"], media=p["steps"][3]["argument"]["docString"].get("mediaType"),
                       nomedia="mediaType" in p["steps"][4]["argument"]["docString"])
            exp = dict(name=r, bg=t, text=r, cell=r, content=r, media=r, nomedia=False)
            if got != exp:
                bad.append(dict(template=t, headers=hs, values=vs, spec=exp, impl=got, field=next(k for k in exp if exp[k] != got[k])))
        except Exception as e:  # noqa: BLE001
            bad.append(dict(template=t, headers=hs, values=vs, spec=r, impl=type(e).__name__ + ":" + str(e)[:100], field="exception"))
    return bad


def interpolate(alpha: str, max_t: int, headers: list[list[str]], values: list[list[str]], tag="interp"):
    # (tag distinguishes the scratch directories of several instances in one check)
    defs = (f"A_ == {{{', '.join(str(ord(c)) for c in alpha)}}}\n"
            f"H_ == {{{', '.join('<<' + ', '.join(tla_seq(x) for x in h) + '>>' for h in headers)}}}\n"
            f"V_ == {{{', '.join('<<' + ', '.join(tla_seq(x) for x in v) + '>>' for v in values)}}}")
    cfg = (f"SPECIFICATION Spec\nCONSTANT Alpha <- A_\nCONSTANT MaxTemplate = {max_t}\nCONSTANT Headers <- H_\nCONSTANT Values <- V_\nCONSTRAINT Emit\nCHECK_DEADLOCK FALSE\n"
           "INVARIANT Inv_OperationalIsDeclarative\nINVARIANT Inv_NoPlaceholderUnchanged\nINVARIANT Inv_Literal\nINVARIANT Inv_Sequential\n")
    res = _tlc("MC_Interpolate", cfg, defs, tag)
    cases = res.tuples("INTERP")
    bad = []
    with ProcessPoolExecutor(CORES) as ex:
        for out in ex.map(_interp_chunk, [cases[i::CORES] for i in range(CORES)]):
            bad += out
    return cases, bad, res


# ------------------------------------------------------------------------------------------------ C10
KW = {"Context": "Given ", "Action": "When ", "Outcome": "Then ", "Conjunction": "And ", "Unknown": "* "}


def types_ast(bg, sc, outline, rb=()):
    loc = {"line": 1, "column": 1}
    step = lambda i, t: {"id": str(i), "location": loc, "keyword": KW[t], "keywordType": t, "text": "x"}  # noqa: E731
    row = lambda i, v: {"id": str(i), "location": loc, "cells": [{"location": loc, "value": v}]}  # noqa: E731
    n = len(bg) + len(sc)
    b = {"background": {"id": "900", "location": loc, "keyword": "Background", "name": "", "description": "", "steps": [step(i, t) for i, t in enumerate(bg)]}}
    s = {"scenario": {"id": "901", "location": loc, "tags": [], "keyword": "Scenario", "name": "s", "description": "",
                      "steps": [step(len(bg) + i, t) for i, t in enumerate(sc)],
                      "examples": [{"id": "902", "location": loc, "tags": [], "keyword": "Examples", "name": "", "description": "", "tableHeader": row(903, "h"),
                                    "tableBody": [row(904, "1"), row(905, "2")]}] if outline else []}}
    kids = [b, s]
    if rb:
        rbg = {"background": {"id": "910", "location": loc, "keyword": "Background", "name": "", "description": "", "steps": [step(200 + i, t) for i, t in enumerate(rb)]}}
        kids = [b, {"rule": {"id": "911", "location": loc, "tags": [], "keyword": "Rule", "name": "", "description": "", "children": [rbg, s]}}]
    return {"uri": "u", "comments": [], "feature": {"location": loc, "tags": [], "language": "en", "keyword": "Feature", "name": "f", "description": "", "children": kids}}


def types_text(bg, sc, outline, rb=()):
    t = "Feature: f\n  Background:\n" + "".join(f"    {KW[k]}b{i}\n" for i, k in enumerate(bg))
    if rb:
        t += "  Rule: r\n    Background:\n" + "".join(f"    {KW[k]}r{i}\n" for i, k in enumerate(rb))
    t += ("  Scenario Outline: s\n" if outline else "  Scenario: s\n") + "".join(f"    {KW[k]}s{i}\n" for i, k in enumerate(sc))
    if outline:
        t += "    Examples:\n      | h |\n      | 1 |\n      | 2 |\n"
    return t


def _types_chunk(cases):
    bad = []
    for c in cases:
        for outline, key in ((False, "plain"), (True, "outline")):
            exp = list(c[key])
            try:
                pk = Compiler().compile(types_ast(c["bg"], c["sc"], outline, c.get("rb", ())))
                got = [s["type"] for s in pk[0]["steps"]]
                if outline and [s["type"] for s in pk[1]["steps"]] != got:
                    got = ["second row differs"] + [s["type"] for s in pk[1]["steps"]]
                via = "dict"
                if got == exp and len(c["bg"]) <= 1 and len(c["sc"]) <= 3:
                    d = Parser().parse(types_text(c["bg"], c["sc"], outline, c.get("rb", ())))
                    d["uri"] = "u"
                    pks = Compiler().compile(d)
                    got = [s["type"] for s in pks[0]["steps"]]
                    if outline and [s["type"] for s in pks[-1]["steps"]] != got:
                        got = ["second row differs"] + [s["type"] for s in pks[-1]["steps"]]
                    via = "text"
            except Exception as e:  # noqa: BLE001
                got, via = type(e).__name__ + ":" + str(e)[:100], "exception"
            if got != exp:
                bad.append(dict(bg=c["bg"], sc=c["sc"], outline=outline, spec=exp, impl=got, via=via))
    return bad


def types(max_bg: int, max_sc: int, tag="types", max_rb: int = 0):
    cfg = (f"SPECIFICATION Spec\nCONSTANT MaxBg = {max_bg}\nCONSTANT MaxSc = {max_sc}\nCONSTANT MaxRuleBg = {max_rb}\nCONSTRAINT Emit\nCHECK_DEADLOCK FALSE\n"
           "INVARIANT Inv_Definite\nINVARIANT Inv_FromKeyword\nINVARIANT Inv_PlainEqualsOutline\nINVARIANT Inv_P_C10\n")
    from common import write_dialects
    with Scratch(tag) as sc:
        write_dialects(sc, ["en"])
        sc.write("MC_Types_run.cfg", cfg)
        res = run_tlc(sc, "MC_Types", cfg="MC_Types_run.cfg", timeout=3000, extra=["-continue"])
    if "Parsing or semantic analysis failed" in res.out or not res.finished or any("Invariant" not in e and "violated" not in e for e in res.errors):
        raise MachineryError("MC_Types did not complete:\n" + "\n".join(res.out.splitlines()[-40:]))
    cases = res.tuples("TYPES")
    bad = []
    with ProcessPoolExecutor(CORES) as ex:
        for out in ex.map(_types_chunk, [cases[i::CORES] for i in range(CORES)]):
            bad += out
    return cases, bad, res


if __name__ == "__main__":
    import time
    t0 = time.time()
    cases, bad, res = interpolate("<>a.\\$", 4, [["a"], ["."], ["a."], ["<a"], ["a>"], ["("], [""], ["a", "."]], [["x"], [""], ["<a>"], ["\\"], ["\\1"], ["$"], [".a"], [">"], ["<.>", "y"], ["<a>", "<.>"]])
    print("interp", len(cases), len(bad), res.distinct, res.invariant_violations, round(res.wall, 1), round(time.time() - t0, 1), bad[:2])
    t0 = time.time()
    cases, bad, res = types(1, 2, max_rb=2)
    print("types", len(cases), len(bad), res.distinct, res.invariant_violations, round(res.wall, 1), round(time.time() - t0, 1), bad[:2])
