#!/venv/bin/python
"""Prints the per-property table of DESIGN.md section 9.3 from the evidence files of the last run of every check."""
import json, glob, os
V = os.path.dirname(os.path.dirname(os.path.abspath(__file__)))
print("| id | TLC instances (distinct states) | executions of the implementation compared | distinct non-trivial cases | wall |")
print("|---|---|---|---|---|")
for f in sorted(glob.glob(os.path.join(V, "evidence", "C*.json"))):
    e = json.load(open(f))
    c = e["coverage"]
    inst = "; ".join(f"{i['instance']} ({i['distinct_states']:,})" for i in c["instances"])
    print(f"| {e['property_id']} | {inst} | {c['traces_validated_against_impl']:,} | {c['distinct_nontrivial']:,} | {e['wall_s']:.0f} s ({e['tier']}) |")
