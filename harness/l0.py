"""Kind-level drive of the REAL generated parser (parser.py): a stub matcher answers by line kind, a stub scanner
hands out the kinds of an input sequence, a recording builder logs start_rule/end_rule/build.

 replay_sequences : behaviours enumerated by MC_L0.tla (small-step spec) replayed through Parser.parse
 drive_transitions: every (position, kind, look-ahead oracle) of the derived table through Parser.match_token
"""
from __future__ import annotations
import json
from collections import deque
from concurrent.futures import ProcessPoolExecutor
from common import import_gherkin, Scratch, run_tlc, MachineryError, CORES

import_gherkin()
from gherkin.parser import Parser, ParserContext  # noqa: E402
from gherkin.token import Token  # noqa: E402
from gherkin.errors import CompositeParserException, ParserException, UnexpectedTokenException, UnexpectedEOFException  # noqa: E402


from gherkin.gherkin_line import GherkinLine  # noqa: E402
from gherkin.token_matcher import TokenMatcher  # noqa: E402

# a representative English line of each kind: code under test that looks at the line itself (its text, its indentation) finds an ordinary line
REPRESENTATIVE = {"FeatureLine": "Feature: f", "RuleLine": "Rule: r", "BackgroundLine": "Background: b", "ScenarioLine": "Scenario: s", "ExamplesLine": "Examples: e",
                  "StepLine": "Given s", "DocStringSeparator": '"""', "TableRow": "| a |", "TagLine": "@t", "Comment": "# c", "Empty": "", "Language": "# language: en",
                  "Other": "other"}


class KLine(GherkinLine):
    def __init__(self, kind):
        super().__init__(REPRESENTATIVE.get(kind, kind), 1)
        self.kind = kind


def reads(kind, t):
    return kind == t or (t == "Other" and kind != "EOF") or (t == "Comment" and kind == "Language")


class StubMatcher(TokenMatcher):
    """answers by line kind; a complete TokenMatcher otherwise (dialect, reset, ...), so that code under test may use any attribute of a matcher"""
    def __init__(self):
        super().__init__()
        self.ops = 0

    def __getattr__(self, name):
        if not name.startswith("match_"):
            raise AttributeError(name)
        return _stub(name[6:]).__get__(self)


def _stub(t):
    def m(self, token):
        self.ops += 1
        kind = "EOF" if token.eof() else token.line.kind
        ok = reads(kind, t)
        if ok:
            token.matched_type = t
            token.location["column"] = 1
        return ok
    m.__name__ = "match_" + t
    return m


for _t in ("EOF", "Empty", "Comment", "TagLine", "FeatureLine", "RuleLine", "BackgroundLine", "ScenarioLine", "ExamplesLine", "StepLine", "DocStringSeparator", "TableRow",
           "Language", "Other"):
    setattr(StubMatcher, "match_" + _t, _stub(_t))


class StubScanner:
    def __init__(self, kinds):
        self.kinds, self.n = kinds, 0

    def read(self):
        self.n += 1
        k = self.kinds[self.n - 1] if self.n <= len(self.kinds) else "EOF"
        return Token(None if k == "EOF" else KLine(k), {"line": self.n})


class RecBuilder:
    def __init__(self):
        self.reset()

    def reset(self):
        self.events, self.cur, self.delivered = [], [], []

    def start_rule(self, r):
        self.cur.append(["S", r])

    def end_rule(self, r):
        self.cur.append(["E", r])

    def build(self, token):
        self.cur.append(["B", ""])
        self.events.append(self.cur)
        self.cur = []
        self.delivered.append(token.location["line"])

    def get_result(self):
        return None


def run_kinds(kinds):
    """kinds without the leading '#', without the final EOF"""
    b = RecBuilder()
    p = Parser(b)
    m = StubMatcher()
    reported, other = [], None
    try:
        p.parse(StubScanner(kinds), m)
    except CompositeParserException as e:
        for x in e.errors:
            if isinstance(x, (UnexpectedTokenException, UnexpectedEOFException)):
                reported.append(x.location["line"])
            else:
                other = repr(x)
    except Exception as e:  # noqa: BLE001
        other = type(e).__name__ + ":" + str(e)
    ev = b.events
    if ev and ev[0][:1] == [["S", "GherkinDocument"]]:
        ev = [ev[0][1:]] + ev[1:]
    return dict(delivered=b.delivered, reported=reported, events=ev, other=other, ops=m.ops)


def _chunk(behs):
    bad = []
    for b in behs:
        kinds = [k[1:] for k in b["input"][:-1]]
        r = run_kinds(kinds)
        exp = dict(delivered=b["delivered"], reported=b["reported"], events=[[list(x) for x in e] for e in b["events"]])
        got = {k: r[k] for k in exp}
        if r["other"] or got != exp:
            bad.append(dict(input=b["input"], spec=exp, impl=got, other=r["other"],
                            field=next((k for k in exp if got[k] != exp[k]), "exception")))
    return len(behs), bad


# step-level properties of the small-step parser ([][A]_lvars), checked on every explored transition
ACTION_PROPERTIES = ["Prop_AppendOnly", "Prop_ScannerForward", "Prop_LookAheadPure", "Prop_Requeue", "Prop_ErrorStays",
                     "Prop_MoveOnlyOnDelivery", "Prop_DoneFinal"]


def replay_sequences(max_lines: int, alphabet: str = "Kinds", prefix: str = "NoPrefix", max_errs: int = 1, invariants=None, timeout=3000):
    invariants = invariants if invariants is not None else ["Inv_StackIsPath", "Inv_Fifo", "Inv_Partition", "Inv_Accepted", "Inv_Linear"]
    with Scratch("l0") as sc:
        cfg = (f"SPECIFICATION Spec\nCONSTANT MaxLines = {max_lines}\nCONSTANT Alphabet <- {alphabet}\nCONSTANT Prefix <- {prefix}\n"
               f"CONSTANT MaxErrs = {max_errs}\nCONSTRAINT Constraint\nCHECK_DEADLOCK FALSE\nVIEW View\n" + "".join(f"INVARIANT {i}\n" for i in invariants)
               + "".join(f"PROPERTY {a}\n" for a in ACTION_PROPERTIES))
        sc.write("MC_L0_run.cfg", cfg)
        res = run_tlc(sc, "MC_L0", cfg="MC_L0_run.cfg", timeout=timeout, extra=["-continue"])
    if "Parsing or semantic analysis failed" in res.out or not res.finished or any("Invariant" not in e and "violated" not in e for e in res.errors):
        raise MachineryError("MC_L0 did not complete:\n" + "\n".join(res.out.splitlines()[-40:]))
    behs = res.tuples("L0")
    n, bad = 0, []
    with ProcessPoolExecutor(CORES) as ex:
        for k, out in ex.map(_chunk, [behs[i::CORES] for i in range(CORES)]):
            n += k
            bad += out
    return n, bad, res, behs


def termination(max_lines: int, timeout=3000):
    """Liveness on the small-step parser: under weak fairness every parse of every kind sequence <= max_lines ends (no state constraint)."""
    with Scratch("live") as sc:
        sc.write("MC_L0_live.cfg", f"SPECIFICATION FairSpec\nCONSTANT MaxLines = {max_lines}\nCONSTANT Alphabet <- Kinds\nCONSTANT Prefix <- NoPrefix\nCONSTANT MaxErrs = 99\n"
                 "PROPERTY Termination\nVIEW View\nCHECK_DEADLOCK FALSE\n")
        res = run_tlc(sc, "MC_L0", cfg="MC_L0_live.cfg", timeout=timeout)
    if "Parsing or semantic analysis failed" in res.out or (not res.finished and not res.errors):
        raise MachineryError("MC_L0 (liveness) did not complete:\n" + "\n".join(res.out.splitlines()[-40:]))
    return res


def drive_transitions(dump, pairs):
    """Every (spec position, kind, oracle) through Parser.match_token; pairs: spec state (json) -> python state number."""
    by = {json.dumps(e["state"]): e for e in dump["states"]}
    cases, bad = 0, []
    covered = set()
    for k, e in enumerate(dump["states"]):
        if e["isEnd"]:
            continue
        if json.dumps(e["state"]) not in pairs:
            continue
        pst = pairs[json.dumps(e["state"])]
        for st in dump["steps"][k]:
            kind, oracle, hit = st["kind"][1:], st["oracle"], st["hit"]
            b = RecBuilder()
            p = Parser(b)
            nxt = {"S": "ScenarioLine", "E": "ExamplesLine", "N": "StepLine"}[oracle]
            ctx = ParserContext(StubScanner([]), StubMatcher(), deque([Token(KLine(nxt), {"line": 2})]), [])
            tok = Token(None if kind == "EOF" else KLine(kind), {"line": 1})
            cases += 1
            try:
                new = p.match_token(pst, tok, ctx)
            except Exception as x:  # noqa: BLE001
                bad.append(dict(state=pst, kind=kind, oracle=oracle, what="exception " + repr(x)))
                continue
            if hit == 0:
                exp_list = list(e["expected"])
                ok = (new == pst and len(ctx.errors) == 1 and b.cur == [] and b.events == []
                      and (", ".join(exp_list) in str(ctx.errors[0])))
                if not ok:
                    bad.append(dict(state=pst, kind=kind, oracle=oracle, what="expected an unexpected-token error listing " + ", ".join(exp_list),
                                    got=dict(new=new, errors=[str(x) for x in ctx.errors], events=b.events)))
            else:
                t = e["trans"][hit - 1]
                covered.add((pst, hit))
                exp_ev = [list(x) for x in t["prods"]]
                if json.dumps(t["target"]) not in pairs:
                    continue        # the state map is incomplete (the static comparison already reported why)
                exp_new = pairs[json.dumps(t["target"])]
                got_ev = b.events[0] if b.events else b.cur
                if new != exp_new or got_ev != exp_ev or ctx.errors:
                    bad.append(dict(state=pst, kind=kind, oracle=oracle, what="transition differs", spec=dict(new=exp_new, events=exp_ev),
                                    got=dict(new=new, events=got_ev, errors=[str(x) for x in ctx.errors])))
    return cases, bad, covered


def learn_and_compare(dump, start=0):
    """The Python parser's state machine LEARNED through Parser.match_token (no reading of parser.py): starting from the pair (spec start
    position, state 0) every (kind, look-ahead oracle) is driven; productions, error behaviour and the consistency of the induced
    position -> state map are compared with the derived table.  -> (pairs, discrepancies, cases, covered transitions)"""
    pairs = {json.dumps([]): start}
    by = {json.dumps(e["state"]): (k, e) for k, e in enumerate(dump["states"])}
    todo = [json.dumps([])]
    done = set()
    cases, bad, covered = 0, [], set()
    while todo:
        skey = todo.pop()
        if skey in done:
            continue
        done.add(skey)
        k, e = by[skey]
        if e["isEnd"]:
            continue
        pst = pairs[skey]
        for st in dump["steps"][k]:
            kind, oracle, hit = st["kind"][1:], st["oracle"], st["hit"]
            b = RecBuilder()
            p = Parser(b)
            nxt = {"S": "ScenarioLine", "E": "ExamplesLine", "N": "StepLine"}[oracle]
            ctx = ParserContext(StubScanner([]), StubMatcher(), deque([Token(KLine(nxt), {"line": 2})]), [])
            tok = Token(None if kind == "EOF" else KLine(kind), {"line": 1})
            cases += 1
            try:
                new = p.match_token(pst, tok, ctx)
            except Exception as x:  # noqa: BLE001
                bad.append(dict(state=pst, kind=kind, oracle=oracle, what="exception " + repr(x)))
                continue
            if hit == 0:
                exp_list = list(e["expected"])
                ok = (new == pst and len(ctx.errors) == 1 and b.cur == [] and b.events == [] and (", ".join(exp_list) in str(ctx.errors[0])))
                if not ok:
                    bad.append(dict(state=pst, kind=kind, oracle=oracle, what="expected an unexpected-token error listing " + ", ".join(exp_list) + " and no move",
                                    got=dict(new=new, errors=[str(x) for x in ctx.errors], events=b.events)))
                continue
            t = e["trans"][hit - 1]
            covered.add((pst, hit))
            exp_ev = [list(x) for x in t["prods"]]
            got_ev = b.events[0] if b.events else b.cur
            tkey = json.dumps(t["target"])
            if got_ev != exp_ev or ctx.errors:
                bad.append(dict(state=pst, kind=kind, oracle=oracle, what="transition differs", spec=dict(events=exp_ev),
                                got=dict(new=new, events=got_ev, errors=[str(x) for x in ctx.errors])))
                continue
            if tkey in pairs:
                if pairs[tkey] != new:
                    bad.append(dict(state=pst, kind=kind, oracle=oracle, what="target state differs (position -> state map not functional)",
                                    spec=dict(target_pairs_with=pairs[tkey]), got=dict(new=new)))
            else:
                pairs[tkey] = new
                todo.append(tkey)
    # distinct positions the table distinguishes must not have been merged wrongly is not required (65 -> 43 is a quotient), but every
    # position must have been reached
    missing = [s for s in by if s not in pairs]
    if missing:
        bad.append(dict(what=f"{len(missing)} grammar positions were never reached while learning (earlier discrepancies cut the exploration)"))
    return pairs, bad, cases, covered


if __name__ == "__main__":
    import sys, time, table as T
    t0 = time.time()
    n, bad, res, behs = replay_sequences(int(sys.argv[1]) if len(sys.argv) > 1 else 3)
    print("L0 sequences", n, "bad", len(bad), res.generated, res.distinct, res.invariant_violations, round(time.time() - t0, 1))
    print(bad[:2])
    dump, _ = T.spec_table()
    pairs, b = T.bisimulate(dump, T.extract_python())
    cases, bad, cov = drive_transitions(dump, pairs)
    print("transitions driven", cases, "bad", len(bad), "covered", len(cov), bad[:2])
