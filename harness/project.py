"""Projection of the implementation's dictionaries onto the specification's records.

Strings become code-point lists, optional parts become 0/1-element lists, ids become integers.  Only fields the
properties talk about are projected; unknown extra fields are ignored (so a harmless extension of the AST is not
an alarm), but a MISSING field is an error of the observed value and is reported as such (KeyError -> mismatch).
"""
from __future__ import annotations
import re
from common import cp


def loc(o):
    return dict(line=o["location"]["line"], col=o["location"].get("column", 0))


def tag(t):
    return dict(id=int(t["id"]), name=cp(t["name"]), **loc(t))


def row(r):
    return dict(id=int(r["id"]), cells=[dict(col=c["location"]["column"], value=cp(c["value"])) for c in r["cells"]], **loc(r))


def step(s):
    arg = []
    if "dataTable" in s:
        d = s["dataTable"]
        arg = [dict(t="DataTable", rows=[row(r) for r in d["rows"]], **loc(d))]
    if "docString" in s:
        d = s["docString"]
        arg = [dict(t="DocString", content=cp(d["content"]), delim=cp(d["delimiter"]),
                    media=[cp(d["mediaType"])] if "mediaType" in d else [], **loc(d))]
    kwt = s["keywordType"]
    return dict(t="Step", id=int(s["id"]), kw=cp(s["keyword"]), kwt=kwt if isinstance(kwt, str) else "NULL", text=cp(s["text"]), arg=arg, **loc(s))


def examples(e):
    return dict(t="Examples", id=int(e["id"]), tags=[tag(t) for t in e["tags"]], kw=cp(e["keyword"]), name=cp(e["name"]),
                desc=cp(e["description"]), header=[row(e["tableHeader"])] if "tableHeader" in e else [],
                body=[row(r) for r in e["tableBody"]], **loc(e))


def child(c):
    if "background" in c:
        b = c["background"]
        return dict(t="Background", id=int(b["id"]), kw=cp(b["keyword"]), name=cp(b["name"]), desc=cp(b["description"]),
                    steps=[step(s) for s in b["steps"]], **loc(b))
    if "scenario" in c:
        s = c["scenario"]
        return dict(t="Scenario", id=int(s["id"]), tags=[tag(t) for t in s["tags"]], kw=cp(s["keyword"]), name=cp(s["name"]),
                    desc=cp(s["description"]), steps=[step(x) for x in s["steps"]],
                    examples=[examples(e) for e in s["examples"]], **loc(s))
    r = c["rule"]
    return dict(t="Rule", id=int(r["id"]), tags=[tag(t) for t in r["tags"]], kw=cp(r["keyword"]), name=cp(r["name"]),
                desc=cp(r["description"]), kids=[child(x) for x in r["children"]], **loc(r))


def document(d):
    f = []
    if "feature" in d:
        x = d["feature"]
        f = [dict(t="Feature", tags=[tag(t) for t in x["tags"]], lang=cp(x["language"]), kw=cp(x["keyword"]), name=cp(x["name"]),
                  desc=cp(x["description"]), kids=[child(c) for c in x["children"]], **loc(x))]
    return dict(feature=f, comments=[dict(text=cp(c["text"]), **loc(c)) for c in d["comments"]])


def pickle_arg(a):
    if a is None:
        return []
    if "dataTable" in a:
        return [dict(t="DataTable", rows=[[cp(c["value"]) for c in r["cells"]] for r in a["dataTable"]["rows"]])]
    d = a["docString"]
    return [dict(t="DocString", content=cp(d["content"]), media=[cp(d["mediaType"])] if "mediaType" in d else [])]


def pickle(p):
    return dict(id=int(p["id"]), astNodeIds=[int(x) for x in p["astNodeIds"]],
                tags=[dict(astNodeId=int(t["astNodeId"]), name=cp(t["name"])) for t in p["tags"]],
                name=cp(p["name"]), language=cp(p["language"]), uri=cp(p["uri"]),
                steps=[dict(id=int(s["id"]), astNodeIds=[int(x) for x in s["astNodeIds"]],
                            type=s["type"] if isinstance(s["type"], str) else "NULL", text=cp(s["text"]),
                            arg=pickle_arg(s.get("argument"))) for s in p["steps"]])


class Unprojectable(Exception):
    pass


def error(e):
    """A parser error as (line, col, kind, ordered expected list, quoted text).

    The message must start with its own '(line:column): ' position (column 0 when the location has none)."""
    m = str(e)
    l = e.location
    line, col = l["line"], l.get("column", 0)
    pre = "(%d:%d): " % (line, col or 0)
    if not m.startswith(pre):
        raise Unprojectable(f"message {m!r} does not start with its position {pre!r}")
    body = m[len(pre):]
    x = re.match(r"expected: (.*?), got '(.*)'$", body, re.S)
    if x:
        return dict(line=line, col=col or 0, kind="unexpected", exp=x.group(1).split(", "), got=cp(x.group(2)))
    x = re.match(r"unexpected end of file, expected: (.*)$", body)
    if x:
        return dict(line=line, col=col or 0, kind="eof", exp=x.group(1).split(", "), got=[])
    if body == "A tag may not contain whitespace":
        return dict(line=line, col=col or 0, kind="tag", exp=[], got=[])
    if body == "inconsistent cell count within the table":
        return dict(line=line, col=col or 0, kind="ragged", exp=[], got=[])
    x = re.match(r"Language not supported: (.*)$", body, re.S)
    if x:
        return dict(line=line, col=col or 0, kind="lang", exp=[], got=cp(x.group(1)))
    raise Unprojectable("unrecognised error message " + m)


def token(t):
    if t.eof():
        return dict(line=t.location["line"], type="EOF", col=0, kw=[], kwt="", text=[], items=[], notext=1)
    return dict(line=t.location["line"], col=t.location["column"], type=t.matched_type, kw=cp(t.matched_keyword or ""),
                kwt=t.matched_keyword_type or "", text=cp(t.matched_text or ""), notext=int(t.matched_text is None),
                items=[dict(col=i["column"], text=cp(i["text"])) for i in t.matched_items])


def split_lines(s: str) -> list[str]:
    """Lines as the scanner sees a STRING source: split after each LF only."""
    parts = s.split("\n")
    return [p + "\n" for p in parts[:-1]] + ([parts[-1]] if parts[-1] else [])
