"""TokenScanner: behaviours of MC_Scanner.tla (every small argument against a small file system; every small file content) replayed on the real
TokenScanner in a scratch directory holding exactly the specification's file system."""
from __future__ import annotations
import os, tempfile, shutil
from common import Scratch, run_tlc, MachineryError, uncp, import_gherkin

import_gherkin()
from gherkin.token_scanner import TokenScanner  # noqa: E402

FILE_A = "x\r\ny\rz"


def read_all(arg: str, extra: int = 2):
    """-> (ok, [[eof, line text, line number]...]) : every line, then `extra` end-of-file tokens"""
    try:
        sc = TokenScanner(arg)
    except Exception as e:  # noqa: BLE001 -- whatever the constructor raises is an observation (the specification knows "cannot be opened" only for a directory)
        return False, type(e).__name__
    out, eofs = [], 0
    while eofs < extra and len(out) < 1000:
        t = sc.read()
        eof = t.eof()
        out.append([eof, "" if eof else t.line.get_line_text(0), t.location["line"]])
        eofs += 1 if eof else 0
    return True, out


def documented(arg: str):
    """the argument read as text (what C01 promises): its lines, numbered, then two end-of-file tokens"""
    ls = arg.split("\n")
    ls = [x + "\n" for x in ls[:-1]] + ([ls[-1]] if ls[-1] else [])
    return True, [[False, l, k + 1] for k, l in enumerate(ls)] + [[True, "", len(ls) + 1], [True, "", len(ls) + 2]]


def acceptable_anyway(b) -> bool:
    """inside the class of the recorded C01 finding the documented behaviour is, of course, acceptable too (a repaired scanner must not raise an alarm)"""
    return bool(b["known"]) and b["kind"] == "arg" and tuple(b["impl"]) == documented(b["arg"])


def model_check_and_replay(max_len: int, timeout=1200):
    with Scratch("scanner") as sc:
        sc.write("MC_Scanner.cfg", f"SPECIFICATION Spec\nCONSTANT MaxLen = {max_len}\nCONSTRAINT Emit\nINVARIANT Inv_Machine\nINVARIANT Inv_Partition\nINVARIANT Inv_NumbersCountOn\n"
                 "INVARIANT Inv_FileIsCrLfString\nINVARIANT Inv_DeviationConfined\nINVARIANT Inv_DocumentedOutside\nCHECK_DEADLOCK FALSE\n")
        res = run_tlc(sc, "MC_Scanner", timeout=timeout, extra=["-continue"])
    if "Parsing or semantic analysis failed" in res.out or not res.finished or any("Invariant" not in e and "violated" not in e for e in res.errors):
        raise MachineryError("MC_Scanner did not complete:\n" + "\n".join(res.out.splitlines()[-40:]))
    cases = res.tuples("SCN")
    bad = []
    d = tempfile.mkdtemp(prefix="verif-scanner-")
    cwd = os.getcwd()
    try:
        os.chdir(d)
        os.mkdir("d")
        open("aa", "w").close()
        for c in cases:
            arg = uncp(c["arg"])
            with open("a", "w", encoding="utf8", newline="") as fh:
                fh.write(uncp(c["content"]) if c["kind"] == "file" else FILE_A)
            ok, out = read_all(arg)
            exp_ok = c["ok"]
            exp = [[t["eof"], uncp(t["line"]), t["no"]] for t in c["out"]]
            c["impl_ok"], c["impl"] = ok, out
            if ok != exp_ok or (ok and out != exp):
                bad.append(dict(kind=c["kind"], arg=arg, content=uncp(c["content"]), known=c["known"], spec=(exp_ok, exp), impl=(ok, out)))
    finally:
        os.chdir(cwd)
        shutil.rmtree(d, ignore_errors=True)
    return cases, bad, res


if __name__ == "__main__":
    import sys, time
    t0 = time.time()
    cases, bad, res = model_check_and_replay(int(sys.argv[1]) if len(sys.argv) > 1 else 4)
    print("scanner", len(cases), len(bad), res.distinct, res.invariant_violations, round(time.time() - t0, 1), bad[:2])
