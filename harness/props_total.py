"""C01 (totality, typed located errors, linear work) and C14 (rejected documents) -- kept apart from props.py for size."""
from __future__ import annotations
import time
from common import SEED
import engines as E, menus as M

CAP_MENU = ["junk\n", "  @bad tag\n"]


def std_sources(tier, n_quick, n_thorough, dialects=None):
    n = n_quick if tier == "quick" else n_thorough
    from props import ALL_PURPOSE_DIALECTS
    return (E.src_corpus() + E.src_limits() + E.src_generated(n, SEED, dialects) + E.src_noisy(n, SEED)
            + (E.src_generated(max(20, n // 6), SEED + 11, ALL_PURPOSE_DIALECTS) if dialects is None else []))


def _error_transitions(rep):
    """every (position, unexpected kind): the error lists the derived expected tokens and the position stays (through Parser.match_token)"""
    import table as T, l0 as L
    dump, res = T.spec_table()
    rep.add_tlc("MC_Table", res, "expected-token lists derived from the grammar")
    pairs, bad, cases, cov = L.learn_and_compare(dump)
    n_err = sum(1 for k, e in enumerate(dump["states"]) if not e["isEnd"] for st in dump["steps"][k] if st["hit"] == 0)
    rep.traces += n_err
    rep.extra["state_kind_error_pairs"] = n_err
    for b in bad:
        if "expected an unexpected-token error" in b.get("what", "") or "exception" in b.get("what", ""):
            rep.violation({"kind": "error-transition"}, {"engine": "learned-table", "what": "unexpected-token handling differs from the specification", "detail": b})


def c14(tier, rep):
    rep.extra["rule"] = ("every (parser position, unexpected line kind) pair through Parser.match_token; every document <= N over a menu of faulty lines in both error "
                         "modes; every sequence of 12/13 faulty lines (error limit, de-duplication); corpus + generated + noisy traces in both modes")
    _error_transitions(rep)
    # "a tag line outside a doc string contains a tag with whitespace": every kind of blank counts (space, tab, ideographic space, ...)
    from props import _tags
    _tags(rep, 5 if tier == "quick" else 6, (64, 12288, 35, 120, 160), (32,), "blanks")
    E.menu(rep, M.ERRORS, 3 if tier == "quick" else 4, max_errs=4, invariants=["Inv_C14", "Inv_C04", "Inv_C14_Iff"], label="errors")
    E.menu(rep, M.ERRORS, 3, mode="stop", max_errs=1, invariants=["Inv_C14"], label="errors-stop")
    E.menu(rep, CAP_MENU, 12 if tier == "quick" else 13, max_errs=11, invariants=["Inv_C14", "Inv_C01"], label="error-limit")
    E.traces(rep, E.record_all(std_sources(tier, 300, 3000), modes=("collect", "stop"), iff=200 if tier == "quick" else 2000), "corpus+gen+noisy")
    E.reuse_pass(rep, E.src_limits() + E.src_corpus() + E.src_limits() + E.src_noisy(100, SEED), "reuse")
    _stream_rejection(rep, E.src_limits() + E.src_corpus() + E.src_noisy(60 if tier == "quick" else 600, SEED + 5))
    E.usage_variants_pass(rep, E.src_corpus() + E.src_limits() + E.src_generated(60, SEED + 4))


def _stream_rejection(rep, sources, only_kind=None):
    """The same verdict through the stream layer, whatever is printed: under each of the 8 option sets a source yields parseError envelopes exactly when the
    parser (whose verdict and errors the traces validate against the specification) rejects it, one envelope per error with its line, column and message."""
    import stream as S
    from gherkin.parser import Parser
    from gherkin.token_matcher import TokenMatcher
    allopts = [(a, b, c) for a in (True, False) for b in (True, False) for c in (True, False)]
    srcs = [(n, s) for n, s, d in sources if d == "en" and not E.known_finding_input(s)]
    from gherkin.errors import CompositeParserException
    direct = []
    for n, s in srcs:
        try:
            Parser().parse(s, TokenMatcher("en"))
            direct.append([])
        except CompositeParserException as x:
            direct.append([(e.location["line"], e.location.get("column"), str(e)) for e in x.errors])
        except Exception:  # noqa: BLE001 -- judged by the trace checks
            direct.append(None)
    for opts in allopts:
        segs = S.run_stream([(n + ".feature", s) for n, s in srcs], opts)
        for (n, s), o, seg in zip(srcs, direct, segs):
            rep.case(("stream-rejection", opts, s))
            if o is None:
                continue
            pe = [e["parseError"] for e in seg if "parseError" in e]
            got = [(e.get("source", {}).get("location", {}).get("line"), e.get("source", {}).get("location", {}).get("column"), e.get("message")) for e in pe]
            want = o
            bad = None
            if bool(pe) != bool(o):
                bad = "rejected by the parser but not by the stream" if o else "accepted by the parser but rejected by the stream"
            elif pe and (len(pe) != len(seg) or got != want):
                bad = "the stream's parseError envelopes are not the parser's errors, one each"
            if bad and only_kind and not any(only_kind in (w[2] or "") for w in want):
                bad = None
            if bad:
                rep.violation({"kind": "stream-rejection"}, {"engine": "stream-rejection", "what": bad, "opts": list(opts), "source": s, "parser_errors": want[:3], "stream": got[:3]})
                break
    # ... and when the stream's parser is switched to stop at the first error (an attribute of the public parser object): the one error as the one envelope
    from gherkin.stream.gherkin_events import GherkinEvents
    from gherkin.errors import ParserError
    ge = GherkinEvents(GherkinEvents.Options(print_source=True, print_ast=True, print_pickles=True))
    ge.parser.stop_at_first_error = True
    for n, s in srcs:
        p = Parser()
        p.stop_at_first_error = True
        try:
            p.parse(s, TokenMatcher("en"))
            want = []
        except CompositeParserException as x:
            want = [(e.location["line"], e.location.get("column"), str(e)) for e in x.errors]
        except ParserError as e:
            want = [(e.location["line"], e.location.get("column"), str(e))]
        except Exception:  # noqa: BLE001
            continue
        rep.case(("stream-rejection-stop", s))
        try:
            seg = list(ge.enum({"source": {"uri": n + ".feature", "data": s, "mediaType": S.MEDIA}}))
            got = [(e["parseError"]["source"]["location"].get("line"), e["parseError"]["source"]["location"].get("column"), e["parseError"]["message"]) for e in seg if "parseError" in e]
            bad = None if (got == want and (not want or len(seg) == len(got))) else "with stop_at_first_error set on the stream's parser the envelopes are not the parser's single error"
        except Exception as x:  # noqa: BLE001
            got, bad = [], "with stop_at_first_error set on the stream's parser " + type(x).__name__ + " escaped from GherkinEvents.enum: " + str(x)[:200]
        if bad and only_kind and not any(only_kind in (w[2] or "") for w in want):
            bad = None
        if bad:
            rep.violation({"kind": "stream-rejection-stop"}, {"engine": "stream-rejection", "what": bad, "source": s, "parser_errors": want[:3], "stream": got[:3]})
            break


def fuzz_sources(n, seed):
    """Line soup: arbitrary characters and every kind of fragment, no structure intended."""
    import random
    r = random.Random(seed)
    frag = ["Feature:", "Scenario:", "Scenario Outline:", "Examples:", "Background:", "Rule:", "Given ", "When ", "* ", "And ", "@", "@t", "#", "# language:", "|", "\\",
            '"""', "```", "<", ">", "<a>", "\x00", "\r", "\t", "\x0b", "\x0c", "\x1c", "\x85", " ", " ", " ", " ", " ", " ", " ", "　",
            "﻿", "\U0001f600", "é", "(", ")", "[", "$", "^", "*", "+", "?", ".", "\\1", "\\n", "\\|", " ", "  ", "fr", "en", "xx", "a", "b", ":", "x" * 50]
    out = []
    for i in range(n):
        lines = []
        for _ in range(r.randint(0, 12)):
            lines.append("".join(r.choice(frag) for _ in range(r.randint(0, 6))))
        s = r.choice(["\n", "\n", "\r\n", "\r"]).join(lines) + r.choice(["", "\n"])
        out.append((f"fuzz:{seed}:{i}", s, "en"))
    return out


def c01(tier, rep):
    import record as R, stream as S, table as T
    rep.extra["rule"] = ("menu: every sequence of <= N menu lines, both modes; error-limit runs; traces: corpus + generated + noisy + character soup (regex "
                         "metacharacters, NUL, every Unicode blank, lone CR, non-BMP) in both modes, outcome classes compared with the spec; the same through the "
                         "stream; line-matching operations counted on 10k-line (thorough: 100k-line) worst cases against the bound computed from the derived table")
    q = tier == "quick"
    E.menu(rep, M.BASE, 3 if q else 4, invariants=["Inv_C01"], label="base")
    E.menu(rep, M.BASE, 3, mode="stop", max_errs=1, invariants=["Inv_C01"], label="base-stop")
    E.menu(rep, CAP_MENU, 12, max_errs=11, invariants=["Inv_C01"], label="error-limit")
    E.usage_variants_pass(rep, E.src_corpus() + E.src_limits() + E.src_generated(60, SEED + 4) + fuzz_sources(100, SEED))
    import l0 as L
    res = L.termination(3 if q else 4)
    rep.add_tlc(f"MC_L0[liveness,N={3 if q else 4}]", res, "PROPERTY Termination (<> done) under weak fairness, all 14 kinds, no state constraint")
    if res.errors:
        rep.violation({"kind": "spec-liveness"}, {"engine": "MC_L0", "what": "Termination violated on the small-step parser specification", "tlc_tail": res.out[-3000:]})
    srcs = std_sources(tier, 200, 3000) + fuzz_sources(250 if q else 6000, SEED)
    E.traces(rep, E.record_all(srcs, modes=("collect", "stop")), "corpus+gen+noisy+fuzz")
    # the stream turns any source into the four envelope kinds only
    fz = [(n, s) for n, s, _ in fuzz_sources(150 if q else 2000, SEED + 1) if not E.known_finding_input(s)]
    runs = [S.record_run(f"fuzz-stream{k}", fz[k:k + 5], (True, True, True))[0] for k in range(0, len(fz), 5)]
    mism, done, res = S.validate(runs)
    rep.add_tlc("Trace_Stream[fuzz]", res, f"{len(runs)} streams of character-soup sources")
    rep.traces += len(runs)
    for i, r in enumerate(runs):
        m = mism.get(i + 1)
        if m or r["notes"]:
            src = r["sources"][m["src"] - 1] if m else r["sources"][0]
            rep.violation({"kind": "stream-totality"}, {"engine": "Trace_Stream", "what": "stream output differs from the specification / foreign exception",
                                                        "source": "".join(map(chr, src["data"])), "notes": r["notes"], "detail": m})
    _stream_rejection(rep, E.src_limits() + E.src_corpus() + E.src_noisy(60 if q else 600, SEED + 5) + fuzz_sources(60, SEED + 2))
    # tag lines INCLUDING the class of the recorded C04/C14 finding ('@ x'): whatever is reported there, it is a tag list or the library's error, never another exception
    import linelevel as LL
    ls, badt, res = LL.tags(5 if q else 6, (64, 32, 35, 120, 9), (32,), embed_every=1, tag="totality")
    rep.add_tlc(f"MC_Tags[totality,len<={5 if q else 6}]", res, f"{len(ls)} tag lines through GherkinLine.tags and Parser.parse: no foreign exception (also inside the class of the recorded tag finding)")
    rep.traces += len(ls)
    for r in ls:
        rep.case(("tag-line", tuple(r["line"])))
    for b in badt:
        if b["impl"][0] == "exception":
            rep.violation({"kind": "tag-line-exception"}, {"engine": "tags", "what": "a tag line raised " + str(b["impl"][1]) + " instead of yielding tags or the library's error", "line": b["line"], "via": b["via"]})
    # the scanner: every small argument against a small file system, the reading machine run to the end (MC_Scanner); the real TokenScanner must do exactly
    # what the AS-IMPLEMENTED stream says -- inside the recorded finding class (an argument naming an existing path) that is the recorded deviation and no more
    import scanner as SC
    cases, bad, res = SC.model_check_and_replay(4 if q else 6)
    rep.add_tlc("MC_Scanner", res, f"{len(cases)} arguments / file contents: Inv_Machine, Inv_Partition, Inv_NumbersCountOn, Inv_FileIsCrLfString, Inv_DeviationConfined, "
                "Inv_DocumentedOutside; each replayed on the real TokenScanner in a scratch directory")
    rep.traces += len(cases)
    for inv in sorted(set(res.invariant_violations)):
        rep.violation({"kind": "spec-invariant", "invariant": inv}, {"engine": "MC_Scanner", "what": f"{inv} violated", "tlc_tail": res.out[-3000:]})
    for c in cases:
        rep.case(("scanner", c["kind"], tuple(c["arg"]), tuple(c["content"])))
    for b in bad[:20]:
        if SC.acceptable_anyway(b):
            continue
        rep.violation({"kind": "scanner"}, {"engine": "MC_Scanner", "what": "the real TokenScanner reads something else than the specification's (as implemented) stream", **b})
    dev = [c for c in cases if c["known"] and c["kind"] == "arg" and (not c["impl_ok"] or [t[1] for t in c["impl"] if not t[0]] != (["".join(map(chr, c["arg"]))] if c["arg"] else []))]
    if dev:
        rep.violation({"kind": "source-names-existing-path"}, {"engine": "MC_Scanner", "what": "an argument that names an existing path is not read as source text", "n": len(dev)})
    # known finding: a source string that names an existing path is opened as a file
    from gherkin.parser import Parser
    from gherkin.errors import ParserError
    for probe in (".", "/"):
        rep.case(("path-probe", probe))
        try:
            Parser().parse(probe)
            rep.violation({"kind": "source-names-existing-path"}, {"engine": "probe", "what": f"Parser().parse({probe!r}) parsed something else than the string", "source": probe})
        except ParserError:
            pass
        except Exception as e:  # noqa: BLE001
            rep.violation({"kind": "source-names-existing-path"}, {"engine": "probe", "what": f"Parser().parse({probe!r}) raised {type(e).__name__}", "source": probe})
    # nothing hangs: inputs that are worst cases for pattern matching (long runs of the characters each pattern repeats), under a time limit
    import signal

    class _Timeout(Exception):
        pass

    def _alarm(*_):
        raise _Timeout()
    patho = {
        "language-header-long-name-then-junk": "# language: " + "a" * 40 + " (more text)\nFeature: f\n",
        "language-header-blank-runs": "#" + " " * 3000 + "language" + " " * 3000 + ":" + " " * 3000 + "en" + " " * 3000 + "x\nFeature: f\n",
        "tag-line-blank-runs": "Feature: f\n  @a" + " " * 5000 + "@b" + " " * 5000 + "x #" + " " * 5000 + "\n  Scenario: s\n",
        "cell-blank-runs": "Feature: f\n  Scenario: s\n    Given x\n      |" + " " * 5000 + "a" + " " * 5000 + "|" + "\\n" * 2000 + " " * 3000 + "|\n",
        "title-blank-runs": "Feature:" + " " * 20000 + "f" + " " * 20000 + "\n",
        "docstring-escapes": "Feature: f\n  Scenario: s\n    Given x\n      \"\"\"\n" + "\\\"" * 5000 + "\n      \"\"\"\n",
        "placeholder-runs": "Feature: f\n  Scenario Outline: " + "<" * 3000 + "a" + ">" * 3000 + "\n    Given " + "<a" * 3000 + "\n    Examples:\n      | a |\n      | " + "<a>" * 500 + " |\n",
    }
    for name, s in patho.items():
        rep.case(("hang-probe", name))
        signal.signal(signal.SIGALRM, _alarm)
        signal.alarm(20)
        try:
            t0 = time.time()
            rec = R.record(name, s)
            signal.alarm(0)
            if rec["exc"]:
                rep.violation({"kind": "hang-probe-exception"}, {"engine": "probe", "what": rec["exc"], "input_class": name})
        except _Timeout:
            rep.violation({"kind": "hang"}, {"engine": "probe", "what": "parse + compile did not finish within 20 s on a short input", "input_class": name, "source": s[:300]})
        finally:
            signal.alarm(0)
    # a document drawing tens of thousands of ids: nothing but the documented outcomes, ids dense from 0 (C11 compares smaller ones with the spec)
    big = "Feature: big\n" + "".join(f"  Scenario: s{i}\n    Given x{i}\n" for i in range(9000))
    rep.case(("large-probe", "36000 ids"))
    try:
        from gherkin.pickles.compiler import Compiler
        from gherkin.stream.id_generator import IdGenerator
        from gherkin.ast_builder import AstBuilder
        idg = IdGenerator()
        doc = Parser(AstBuilder(idg)).parse(big)
        doc["uri"] = "u"
        pk = Compiler(idg).compile(doc)
        ids = sorted(int(p["id"]) for p in pk) + sorted(int(s["id"]) for p in pk for s in p["steps"])
        if len(pk) != 9000 or idg._id_counter != 36000 or sorted(ids) != list(range(18000, 36000)):
            rep.violation({"kind": "large-document"}, {"engine": "probe", "what": "ids of a 9000-scenario document are not dense", "pickles": len(pk), "counter": idg._id_counter})
    except ParserError as x:
        rep.violation({"kind": "large-document"}, {"engine": "probe", "what": "a well-formed 18001-line document is rejected: " + str(x)[:200]})
    except Exception as x:  # noqa: BLE001
        rep.violation({"kind": "large-document-exception"}, {"engine": "probe", "what": f"a 9000-scenario document raised {type(x).__name__}: {str(x)[:200]}"})
    # linear work: line-matching operations against the bound computed from the derived table
    dump, res = T.spec_table()
    K = max(len(s["trans"]) for s in dump["states"]) + 2 * 4
    rep.extra["work_per_line_bound"] = K
    n = 10000 if q else 100000
    worst = {
        "tag-run-before-scenario": "Feature: f\n  Scenario: s\n    Given x\n" + "  @t\n" * n + "  Scenario: t\n",
        "tag-run-at-eof": "Feature: f\n  Scenario: s\n    Given x\n" + "  @t\n" * n,
        "comment-tag-alternation": "Feature: f\n  Scenario: s\n    Given x\n" + "  @t\n  # c\n\n" * (n // 3) + "    Examples:\n",
        "tags-in-description": "Feature: f\n  text\n" + "  @t\n  text\n" * (n // 2),
        "error-run": "junk\n" + "@t\n" * n,
        "scenario-tag-pairs": "Feature: f\n" + "  @t\n  Scenario: s\n" * (n // 2),
    }
    for name, s in worst.items():
        t0 = time.time()
        rec = R.record(name, s, compile_=False)
        lines = len(rec["lines"])
        rep.case(("linear", name))
        rep.extra.setdefault("ops_per_line", {})[name] = round(rec["ops"] / (lines + 1), 2)
        if rec["ops"] > K * (lines + 1) or rec["exc"]:
            rep.violation({"kind": "nonlinear-work"}, {"engine": "counting-matcher", "what": f"{rec['ops']} line-matching operations for {lines} lines exceed {K} per line",
                                                       "input_class": name, "exc": rec["exc"], "seconds": round(time.time() - t0, 1)})
