"""C15: histories and schedules enumerated by TLC on Sessions.tla, replayed on real, re-used and concurrently running objects."""
from __future__ import annotations
import copy, json, threading
from common import import_gherkin, Scratch, run_tlc, write_dialects, MachineryError, cp, CORES
import project as P

import_gherkin()
from gherkin.parser import Parser  # noqa: E402
from gherkin.ast_builder import AstBuilder  # noqa: E402
from gherkin.token_matcher import TokenMatcher  # noqa: E402
from gherkin.stream.id_generator import IdGenerator  # noqa: E402
from gherkin.errors import CompositeParserException, ParserException  # noqa: E402
from gherkin.pickles.compiler import Compiler  # noqa: E402
import gherkin.dialect as dialect_mod  # noqa: E402

# documents that leave state behind: dialect switch, open delimiters, errors early / late / at the limit, pending tags, comments, open rules
HIST_POOL = [
    "Feature: a\n  Scenario: s\n    Given x\n",
    "# language: fr\nFonctionnalité: f\n  Scénario: s\n    Soit x\n",
    "Feature: q\n  Scenario: s\n    Given x\n      \"\"\"\n      open\n",
    "Feature: b\n  Scenario: s\n    Given x\n        ```\n     open\n",
    "junk\n",
    "Feature: l\n  Scenario: s\n    Given x\n      | a |\n      | a | b |\n",
    "".join(f"junk{i}\n" for i in range(13)),
    "Feature: t\n  Scenario: s\n  @t1\n  # c\n",
    "# c1\nFeature: c\n  # c2\n  Rule: r\n    Background:\n      Given b\n",
    "@f\nFeature: o\n  Scenario Outline: <h>\n    Given <h>\n    Examples:\n      | h |\n      | 1 |\n",
    "# language: xx\nFeature: u\n",
    "",
    # the 11th error is raised INSIDE a look-ahead (tag line followed by a faulty tag line): the parse is abandoned with lines still queued
    "".join(f"junk{i}\n" for i in range(10)) + "Feature: f\n  Scenario: s\n    Given x\n  @t\n  @bad tag\n  Scenario: t\n",
    "# c0\nFeature: d\n  Scenario: s\n    Given x\n        ```\n        c\n        ```\n    And y\n      \"\"\" m\n      d\n      \"\"\"\n",
    "Feature: i\n    indented description\n      more\n  Scenario: s\n    free\n",
    # a header that names English (a switch for a matcher whose default is another dialect), a header-less French document, an outline whose first step is a conjunction
    "# language: en\nFeature: e\n  Scenario: s\n    When x\n",
    "Fonctionnalit\u00e9: g\n  Sc\u00e9nario: t\n    Soit y\n",
    "Feature: w\n  Scenario Outline: o\n    And <h>\n    Examples:\n      | h |\n      | 1 |\n      | 2 |\n",
    # two perturbations in one document: a dialect switch AND a doc string that is closed again / left open / indented deeper than what follows
    "# language: fr\nFonctionnalit\u00e9: A\n  Sc\u00e9nario: un\n    Soit un texte\n      \"\"\"\n      bonjour\n      \"\"\"\n    Alors ok\n",
    "# language: fr\nFonctionnalit\u00e9: B\n  Sc\u00e9nario: un\n    Soit un texte\n          ```\n      ouvert\n",
]
SCHED_POOL = [
    "Feature: a\n  Scenario: s\n    Given x\n",
    "# language: fr\nFonctionnalité: f\n  Scénario: s\n",
    "Feature: q\n  Scenario: s\n    Given x\n      \"\"\"\n",
    "Feature: t\n  @t1\n  @t2\n  Scenario: s\n",
    "junk\n@bad tag\n",
    "# c\nFeature: c\n  Rule: r\n",
]


def outcome(fn):
    try:
        d = fn()
        return dict(ok=True, errs=[], ast=[P.document(d)]), d
    except CompositeParserException as e:
        try:
            return dict(ok=False, errs=[P.error(x) for x in e.errors], ast=[]), None
        except P.Unprojectable as u:
            return dict(ok=False, errs=[], ast=[], exception="unprojectable error: " + str(u)), None
    except ParserException as e:
        try:
            return dict(ok=False, errs=[P.error(e)], ast=[], single=True), None
        except P.Unprojectable as u:
            return dict(ok=False, errs=[], ast=[], exception="unprojectable error: " + str(u)), None
    except Exception as e:  # noqa: BLE001
        return dict(ok=False, errs=[], ast=[], exception=type(e).__name__ + ":" + str(e)[:200]), None


class WatchMatcher(TokenMatcher):
    def reset(self):
        super().reset()
        self.after_reset = (self.dialect_name, self._active_doc_string_separator, self._indent_to_remove)


class WatchBuilder(AstBuilder):
    def reset(self):
        super().reset()
        self.after_reset = (len(self.stack), list(self.comments))


def tlc_sessions(pool, n_inst, max_docs, shared, default="en", timeout=3000, tag="sessions"):
    with Scratch(tag) as sc:
        write_dialects(sc)
        sc.write_json("pool.json", [[cp(l) for l in P.split_lines(s)] for s in pool])
        cfg = (f"SPECIFICATION Spec\nCONSTANT NInst = {n_inst}\nCONSTANT MaxDocs = {max_docs}\nCONSTANT SharedIds = {'TRUE' if shared else 'FALSE'}\n"
               f"CONSTANT Default = \"{default}\"\nCONSTRAINT Emit\nINVARIANT Inv_Fresh\nINVARIANT Inv_Solo\nINVARIANT Inv_Independent\nCHECK_DEADLOCK FALSE\n")
        sc.write("Sessions_run.cfg", cfg)
        res = run_tlc(sc, "Sessions", cfg="Sessions_run.cfg", timeout=timeout, extra=["-continue"])
    if "Parsing or semantic analysis failed" in res.out or not res.finished or any("Invariant" not in e and "violated" not in e for e in res.errors):
        raise MachineryError("Sessions did not complete:\n" + "\n".join(res.out.splitlines()[-40:]))
    return res.tuples("SESSION"), res


def digest_dialects():
    return json.dumps(dialect_mod.DIALECTS, sort_keys=True, ensure_ascii=False)


def replay_history(pool, sess, default="en"):
    """One real Parser + TokenMatcher + Compiler, sharing one IdGenerator, fed the history; every outcome against the spec's."""
    hist, res = sess["hist"][0], sess["res"][0]
    idg = IdGenerator()
    b = WatchBuilder(idg)
    parser, matcher, comp = Parser(b), WatchMatcher(default), Compiler(idg)
    before = digest_dialects()
    bad = []
    kept = []          # results the caller still holds: (the object returned, a deep copy taken when it was returned)
    for k, h in enumerate(hist):
        text = pool[h["d"] - 1]
        if idg._id_counter != h["nid0"]:
            bad.append(dict(step=k, what="id counter at begin", spec=h["nid0"], impl=idg._id_counter))
        o, d = outcome(lambda: parser.parse(text, matcher))
        if matcher.after_reset != (default, None, 0) or b.after_reset != (1, []):
            bad.append(dict(step=k, what="state after reset is not the initial state", matcher=matcher.after_reset, builder=b.after_reset))
        exp = dict(ok=res[k]["ok"], errs=res[k]["errs"], ast=res[k]["ast"])
        got = {x: o.get(x) for x in exp}
        if got != exp or "exception" in o or "single" in o:
            bad.append(dict(step=k, what="outcome differs from the solo result", doc=text, spec=exp, impl=o))
        if idg._id_counter != res[k]["nid"]:
            bad.append(dict(step=k, what="id counter after parse", spec=res[k]["nid"], impl=idg._id_counter))
        for (obj, snap, kk) in kept:
            if obj != snap:
                bad.append(dict(step=k, what=f"the document returned by parse #{kk} changed when a later document was parsed (shared mutable state)", doc=text))
        if d is not None:
            kept.append((d, copy.deepcopy(d), k))
        if d is not None:
            # compiling with the shared generator moves the counter: keep the spec's history aligned by restoring it
            keep = idg._id_counter
            d2 = dict(d, uri="u")
            snap = copy.deepcopy(d2)
            p1 = comp.compile(d2)
            if d2 != snap:
                bad.append(dict(step=k, what="compile modified its argument", doc=text))
            idg._id_counter = keep
            p2 = comp.compile(d2)
            if p1 != p2:
                bad.append(dict(step=k, what="compile is not deterministic", doc=text))
            idg._id_counter = keep
    if digest_dialects() != before:
        bad.append(dict(what="the shared dialect table was modified"))
    return bad


class Gate:
    """Turn-taking: thread p may run one loop iteration when the schedule says so."""

    def __init__(self, order):
        self.order, self.pos, self.cv = order, 0, threading.Condition()
        self.failed = None

    def wait_turn(self, p):
        with self.cv:
            ok = self.cv.wait_for(lambda: self.pos < len(self.order) and self.order[self.pos] == p or self.failed, timeout=20)
            if not ok or self.failed:
                self.failed = self.failed or f"schedule not followable at {self.pos} by {p}"
                self.cv.notify_all()
                raise RuntimeError(self.failed)

    def done_turn(self):
        with self.cv:
            self.pos += 1
            self.cv.notify_all()


def replay_schedule(pool, sess, default="en", own_matcher=True):
    """Real parsers in threads, interleaved at loop-iteration granularity exactly as TLC's schedule says."""
    order = [s[1] for s in sess["sched"] if s[0] == "T"]
    gate = Gate(order)
    n = len(sess["hist"])
    results = [None] * n

    class GatedParser(Parser):
        def __init__(self, p, *a):
            super().__init__(*a)
            self.p, self.holding = p, False

        def match_token(self, state, token, context):
            if self.holding:
                gate.done_turn()
                self.holding = False
            gate.wait_turn(self.p)
            self.holding = True
            return super().match_token(state, token, context)

    def run(p):
        h = sess["hist"][p][0]
        parser = GatedParser(p + 1, AstBuilder(IdGenerator()))
        try:
            o, _ = outcome(lambda: parser.parse(pool[h["d"] - 1], TokenMatcher(default)) if own_matcher else parser.parse(pool[h["d"] - 1]))
        finally:
            if parser.holding:
                gate.done_turn()
        results[p] = o

    ths = [threading.Thread(target=run, args=(p,)) for p in range(n) if sess["hist"][p]]
    for t in ths:
        t.start()
    for t in ths:
        t.join(30)
    bad = []
    if gate.failed:
        return [dict(what="machinery: " + gate.failed)]
    for p in range(n):
        if not sess["hist"][p]:
            continue
        exp = dict(ok=sess["res"][p][0]["ok"], errs=sess["res"][p][0]["errs"], ast=sess["res"][p][0]["ast"])
        o = results[p] or {}
        got = {x: o.get(x) for x in exp}
        if got != exp or "exception" in o:
            bad.append(dict(instance=p + 1, what="result under this interleaving differs from the solo result", doc=pool[sess["hist"][p][0]["d"] - 1],
                            schedule=order, spec=exp, impl=o))
    return bad


if __name__ == "__main__":
    import sys, time
    t0 = time.time()
    ss, res = tlc_sessions(HIST_POOL, 1, 2, True)
    print("histories", len(ss), res.distinct, res.invariant_violations, round(res.wall, 1))
    bad = [b for s in ss for b in replay_history(HIST_POOL, s)]
    print("bad", len(bad), bad[:2], round(time.time() - t0, 1))
    t0 = time.time()
    ss, res = tlc_sessions(SCHED_POOL[:3], 2, 1, False)
    print("schedules", len(ss), res.distinct, res.invariant_violations, round(res.wall, 1))
    bad = [b for s in ss for b in replay_schedule(SCHED_POOL[:3], s)]
    print("bad", len(bad), bad[:2], round(time.time() - t0, 1))
