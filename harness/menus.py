"""Menus of concrete lines for the spec -> code instances (MC_Menu): each entry is one physical line."""

BASE = [
    "Feature: f\n", "  Rule: r\n", "  Background: b\n", "  Scenario: s\n", "    Examples: e\n", "    Given <a> x\n", "    And y\n",
    "      | a | <a> |\n", "      | 1 |\n", "  @t1 @t2\n", "  # c\n", "\n", "  free text\n", '      """\n', "      ```json\n",
    "# language: fr\n", "  @bad tag\n",
]

# structure only: no free text, comments or blanks -- for deep compile/ids/tags enumerations
STRUCT = [
    "Feature: f\n", "  Rule: r\n", "  Background: b\n", "  Scenario: s\n", "    Examples: e\n", "    Given <a> x\n", "    And y\n",
    "      | a |\n", "      | 1 |\n", "  @t1 @t1 @t2\n", "      | <a> |\n", "      |\n", "  @x<a> @<a>\n",
]

# look-ahead: runs of tag / comment / blank lines before Examples, Scenario, Rule
LOOKAHEAD = [
    "Feature: f\n", "  Rule: r\n", "  Scenario: s\n", "    Examples: e\n", "    Given x\n", "  @t1\n", "  # c\n", "\n", "      | a |\n",
    "# language: fr\n", "  desc\n",
]

# doc strings: every kind of Gherkin-looking line as content, both delimiters, indentation relations
DOCSTRING = [
    "Feature: f\n", "  Scenario: s\n", "    Given x\n", '      """\n', "      ```\n", '    """ text/plain\n', "        ``` json\n",
    "      Scenario: no\n", "  @tag\n", "# c\n", "\n", "        | a |\n", "   less\n", '      \\"\\"\\"\n', "      \\`\\`\\`\n",
    "    Examples:\n", "          deep\n", "  Background:\n", "  Scenario Outline: o\n", "            \n", "  Rule: r\n", '      """ # end\n', '      x \\"\\"\\" y \\"\\"\\" \\`\\`\\`\n', '      \\""" \\"\\"" "\\"\\" \\`` `\n',
    '      """"json\n', "      ````\n", '      """ a\\"\\"\\"b\n', '  \\"\\"\\" out\n', '      \\\\\\"\\"\\" \\\\\\`\\`\\`\n',
]

# errors: faults of every kind
ERRORS = [
    "Feature: f\n", "  Scenario: s\n", "    Given x\n", "      | a |\n", "      | a | b |\n", "  @bad tag\n", "# language: xx\n", "junk\n",
    "    Examples:\n", '      """\n', "  Rule: r\n", "  @t\n", "Feature: g\n", "  Background:\n", "  junk  \t\n", "    Examples: e \n",
]

# tables: rectangular and ragged data / examples tables, escapes
TABLES = [
    "Feature: f\n", "  Scenario Outline: s <a>\n", "    Given <a> x\n", "    Examples:\n", "      | a |\n", "      | a | b |\n", "      | \\| | \\n |\n",
    "      |  |\n", "      ||\n", "  # c\n", "\n", "    | x\\\\ | <a> |\n", "      | a | b | c |\n", "    Given y\n", "      |\n", "      | name\n",
]

# dialect switching: French and English keyword lines, header at different positions
DIALECT = ["# language: fr\n", "Fonctionnalité: f\n", "Feature: f\n", "  Scénario: s\n", "  Scenario: s\n", "    Soit x\n", "    Given x\n", "  @t\n", "# c\n", "\n",
           "    * y\n", "# language: en\n"]

# layout: lines whose reading must not depend on indentation, padding, line ending, blank lines and comments around them
LAYOUT = ["Feature: f\n", "  Scenario: s\n", "    Given x\n", "      | a | b |\n", '      """\n', "    text\n", "  @t @u\n", "    Examples:\n", "# c\n", "\n",
          "  Rule: r\n", "junk\n"]
