"""C05: the complete keyword table, as documents."""
from __future__ import annotations
import itertools, random
from common import master_dialects

TITLE = ["feature", "rule", "background", "scenario", "scenarioOutline", "examples"]
STEP = ["given", "when", "then", "and", "but"]
INDENTS = ["", "  ", "\t", "    "]
PADS = [" ", "", "  "]


def doc_for(D: dict, role: str, kw: str, indent: str, pad: str) -> str:
    """A minimal document in which a line with keyword kw stands where its role is expected."""
    f, sc, so = D["feature"][0], D["scenario"][0], D["scenarioOutline"][0]
    if role == "feature":
        return f"{indent}{kw}:{pad}name\n"
    head = f"{f}: feature\n"
    if role in ("rule", "background", "scenario", "scenarioOutline"):
        return head + f"{indent}{kw}:{pad}name\n"
    if role == "examples":
        return head + f"  {so}: outline\n{indent}{kw}:{pad}name\n"
    return head + f"  {sc}: scenario\n{indent}{kw}text {role}\n"


def all_cases(layouts: int = 1):
    """(name, source, default dialect) for every dialect x role x listed keyword, as default dialect and via header."""
    langs = master_dialects()
    out = []
    n = 0
    for d in sorted(langs):
        D = langs[d]
        for role in TITLE + STEP:
            for k, kw in enumerate(D[role]):
                for lay in range(layouts):
                    indent = INDENTS[(n + lay) % len(INDENTS)]
                    pad = PADS[(n + lay) % len(PADS)]
                    body = doc_for(D, role, kw, indent, pad)
                    out.append((f"kw:{d}:{role}:{k}:default:{lay}", body, d))
                    hdr = ["# language: %s\n", "#language:%s\n", "  # language : %s  \n"][(n + lay) % 3] % d
                    out.append((f"kw:{d}:{role}:{k}:header:{lay}", hdr + body, "en" if d != "en" else "fr"))
                n += 1
    return out


def odd_cases():
    """Every listed keyword that is unusual as text -- a title keyword with a blank at its edge ('Rule ' in en-tx), a step keyword without a trailing space, keywords with
    apostrophes, hyphens, exclamation marks, digits or non-BMP characters -- as a document, as default dialect and via header (a compact subset of all_cases for every check)."""
    import unicodedata
    langs = master_dialects()
    out = []
    n = 0
    for d in sorted(langs):
        D = langs[d]
        for role in TITLE + STEP:
            for k, kw in enumerate(D[role]):
                if kw == "* ":
                    continue
                core = kw[:-1] if role in STEP and kw.endswith(" ") else kw
                odd = (role in TITLE and kw != kw.strip()) or (role in STEP and not kw.endswith(" ")) or core != core.strip() or any(ord(c) > 0xFFFF for c in kw) or \
                    any(not (c.isalnum() or c == " " or unicodedata.category(c).startswith("M")) for c in core)
                if not odd:
                    continue
                body = doc_for(D, role, kw, INDENTS[n % len(INDENTS)], PADS[n % len(PADS)])
                out.append((f"oddkw:{d}:{role}:{k}:default", body, d))
                out.append((f"oddkw:{d}:{role}:{k}:header", f"# language: {d}\n" + body, "en"))
                n += 1
    return out


def foreign_cases(seed: int, n: int):
    """Keywords of another dialect written where a keyword could stand."""
    langs = master_dialects()
    r = random.Random(seed)
    names = sorted(langs)
    out = []
    for i in range(n):
        d, o = r.choice(names), r.choice(names)
        role = r.choice(TITLE + STEP)
        kw = r.choice(langs[o][role])
        out.append((f"foreign:{d}:{o}:{role}:{i}", doc_for(langs[d], role, kw, r.choice(INDENTS), r.choice(PADS)), d))
    return out


def header_cases(seed: int, limit: int | None):
    parts = itertools.product(["", " ", "\t"], ["", " "], ["language", "Language", "languag", "languagee"], ["", " "], [":", "", "::"], ["", " ", "\t\t"],
                              ["fr", "en-lol", "xx", "zh-CN", "f r", "fr1", "é", "", "en_Scouse", "EN"], ["", " ", " x", "\r", " #"])
    cases = []
    for k, (pre, a, word, b, colon, c, name, trail) in enumerate(parts):
        cases.append((f"header:{k}", f"{pre}#{a}{word}{b}{colon}{c}{name}{trail}\nFonctionnalité: f\n  Scénario: s\n    Soit x\n", "en"))
    if limit is not None and limit < len(cases):
        cases = random.Random(seed).sample(cases, limit)
    # every kind of blank in every gap of the header (the pattern's \\s is Unicode-aware)
    for k, ws in enumerate(["\u00a0", "\u3000", "\u2003", "\x0b", "\x0c", "\x1f", "\u2028", "\u0085", " \t\u00a0"]):
        for j, (g1, g2, g3, g4, g5) in enumerate([(ws, "", "", " ", ""), ("", ws, "", " ", ""), ("", "", ws, " ", ""), ("", "", "", ws, ""), ("", "", "", " ", ws), (ws, ws, ws, ws, ws)]):
            cases.append((f"header-blank:{k}:{j}", f"{g1}#{g2}language{g3}:{g4}fr{g5}\nFonctionnalité: f\n  Scénario: s\n    Soit x\n", "en"))
    # a header that is not at the top: after a comment / blank (still a header), after a tag or the feature line (a comment)
    for k, pre in enumerate(["# c\n", "\n", "@t\n", "Feature: f\n", "# language: en\n", "# language: xx\n"]):
        cases.append((f"header-pos:{k}", pre + "# language: fr\nFonctionnalité: f\n", "en"))
    return cases


def english_cases():
    """English title keywords as lines of every dialect's documents, each where that role could stand: recognised only where the dialect lists them."""
    langs = master_dialects()
    out = []
    for d in sorted(langs):
        D = langs[d]
        for role, kw in (("feature", "Feature"), ("rule", "Rule"), ("background", "Background"), ("scenario", "Scenario"), ("scenario", "Example"),
                         ("scenarioOutline", "Scenario Outline"), ("examples", "Examples")):
            out.append((f"english:{d}:{role}:{kw}", doc_for(D, role, kw, "  ", " "), d))
    return out


def star_cases():
    """'* x' and the English step keywords as step lines in every dialect (recognised only where the dialect lists them)."""
    langs = master_dialects()
    out = []
    for d in sorted(langs):
        D = langs[d]
        for k, kw in enumerate(["* ", "Given ", "And ", "But ", "*", "When "]):
            body = f"{D['feature'][0]}: f\n  {D['scenario'][0]}: s\n    {kw}x y\n"
            out.append((f"star:{d}:{k}:default", body, d))
            out.append((f"star:{d}:{k}:header", f"# language: {d}\n" + body, "en"))
    return out
